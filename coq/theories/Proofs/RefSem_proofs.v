(* Proofs/RefSem_proofs.v — sanity lemmas about the reference semantics. *)
From Coq Require Import List ZArith Bool Arith Lia.
From PV Require Import Base.Bytes Michelson.Instr Michelson.RefSem.
Import ListNotations.
Local Open Scope Z_scope.

(* EDIV returns the Euclidean quotient and remainder *)
Lemma euclid_spec a b : b <> 0 -> a = b * euclid_q a b + euclid_r a b /\ 0 <= euclid_r a b < Z.abs b.
Proof.
  intros Hb. unfold euclid_q, euclid_r.
  assert (Ha : Z.abs b <> 0) by lia.
  pose proof (Z.div_mod a (Z.abs b) Ha) as Hdm.
  pose proof (Z.mod_pos_bound a (Z.abs b)) as Hp.
  split; [|lia].
  rewrite Z.mul_assoc. replace (b * Z.sgn b) with (Z.abs b); [exact Hdm|].
  symmetry. apply Z.sgn_abs.
Qed.

Lemma small_multiple y k lo hi : y < 0 -> y * hi < y * k < y * lo -> lo < k < hi.
Proof.
  intros Hy [H1 H2]. split.
  - destruct (Z_lt_le_dec lo k); [assumption|]. assert (y * lo <= y * k) by (apply Z.mul_le_mono_nonpos_l; lia). lia.
  - destruct (Z_lt_le_dec k hi); [assumption|]. assert (y * k <= y * hi) by (apply Z.mul_le_mono_nonpos_l; lia). lia.
Qed.

Lemma small_multiple_pos y k lo hi : 0 < y -> y * lo < y * k < y * hi -> lo < k < hi.
Proof.
  intros Hy [H1 H2]. split.
  - destruct (Z_lt_le_dec lo k); [assumption|]. assert (y * k <= y * lo) by (apply Z.mul_le_mono_nonneg_l; lia). lia.
  - destruct (Z_lt_le_dec k hi); [assumption|]. assert (y * hi <= y * k) by (apply Z.mul_le_mono_nonneg_l; lia). lia.
Qed.

(* Python's  q, r = divmod(x, y); if r < 0: r += abs(y); q += 1  computes the same pair *)
Lemma ediv_agree x y : y <> 0 ->
  let q := x / y in let r := x mod y in
  (if r <? 0 then q + 1 else q) = euclid_q x y /\
  (if r <? 0 then r + Z.abs y else r) = euclid_r x y /\
  0 <= euclid_r x y.
Proof.
  intros Hy. cbv zeta.
  destruct (euclid_spec x y Hy) as [Hdm Hpos].
  pose proof (Z.div_mod x y Hy) as Hfl.
  pose proof (Z.mod_pos_bound x y) as Hp. pose proof (Z.mod_neg_bound x y) as Hn.
  remember (euclid_q x y) as qe. remember (euclid_r x y) as re.
  remember (x / y) as q. remember (x mod y) as r. clear Heqqe Heqre Heqq Heqr.
  assert (Hk : y * (qe - q) = r - re) by lia.
  remember (qe - q) as k.
  destruct (r <? 0) eqn:E; [apply Z.ltb_lt in E | apply Z.ltb_ge in E].
  - assert (H : y < 0) by lia. specialize (Hn H).
    assert (0 < k < 2) by (apply (small_multiple y); lia).
    assert (k = 1) by lia. subst k. split; [lia|]. split; lia.
  - destruct (Z_lt_le_dec 0 y) as [Hy'|Hy'].
    + specialize (Hp Hy'). assert (-1 < k < 1) by (apply (small_multiple_pos y); lia).
      assert (k = 0) by lia. subst k. split; [lia|]. split; lia.
    + assert (H : y < 0) by lia. specialize (Hn H). assert (r = 0) by lia.
      assert (-1 < k < 1) by (apply (small_multiple y); lia).
      assert (k = 0) by lia. subst k. split; [lia|]. split; lia.
Qed.

Lemma euclid_q_nonneg x y : 0 <= x -> 0 < y -> 0 <= euclid_q x y.
Proof.
  intros Hx Hy. unfold euclid_q. rewrite Z.sgn_pos by assumption. rewrite Z.abs_eq by lia.
  rewrite Z.mul_1_l. apply Z.div_pos; lia.
Qed.

Lemma euclid_q_le x y : 0 <= x -> 0 < y -> euclid_q x y <= x.
Proof.
  intros Hx Hy. unfold euclid_q. rewrite Z.sgn_pos by assumption. rewrite Z.abs_eq by lia. rewrite Z.mul_1_l.
  apply Z.div_le_upper_bound; [assumption|]. nia.
Qed.

Lemma euclid_r_le x y : 0 <= x -> 0 < y -> euclid_r x y <= x.
Proof. intros Hx Hy. unfold euclid_r. rewrite Z.abs_eq by lia. apply Z.mod_le; assumption. Qed.

(* ------------------------------------------------------------------------------------------ *)
(* v_compare is a strict total order on the values it relates (no typing needed: it only       *)
(* answers on matching comparable shapes)                                                      *)
(* ------------------------------------------------------------------------------------------ *)
Local Close Scope Z_scope.

Lemma bytes_cmp_eq a : forall b, bytes_cmp a b = Eq -> a = b.
Proof.
  induction a as [|x a IH]; intros [|y b] H; simpl in H; try discriminate; [reflexivity|].
  destruct (N.compare (Byte.to_N x) (Byte.to_N y)) eqn:E; try discriminate.
  apply N.compare_eq in E. apply to_N_inj in E. subst. f_equal. apply IH. exact H.
Qed.

Lemma bytes_cmp_refl a : bytes_cmp a a = Eq.
Proof. induction a as [|x a IH]; simpl; [reflexivity|]. rewrite N.compare_refl. exact IH. Qed.

Lemma bytes_cmp_antisym a : forall b, bytes_cmp b a = CompOpp (bytes_cmp a b).
Proof.
  induction a as [|x a IH]; intros [|y b]; simpl; try reflexivity.
  rewrite (N.compare_antisym (Byte.to_N x) (Byte.to_N y)).
  destruct (N.compare (Byte.to_N x) (Byte.to_N y)); simpl; auto.
Qed.

Lemma bytes_cmp_trans a : forall b c, bytes_cmp a b = Lt -> bytes_cmp b c = Lt -> bytes_cmp a c = Lt.
Proof.
  induction a as [|x a IH]; intros [|y b] [|z c] H1 H2; simpl in *; try discriminate; try reflexivity.
  destruct (N.compare_spec (Byte.to_N x) (Byte.to_N y)) as [E1|E1|E1]; try discriminate;
    destruct (N.compare_spec (Byte.to_N y) (Byte.to_N z)) as [E2|E2|E2]; try discriminate.
  - rewrite E1, E2, N.compare_refl. eapply IH; eassumption.
  - rewrite E1. apply N.compare_lt_iff in E2. rewrite E2. reflexivity.
  - rewrite <- E2. apply N.compare_lt_iff in E1. rewrite E1. reflexivity.
  - assert (E : (Byte.to_N x < Byte.to_N z)%N) by lia. apply N.compare_lt_iff in E. rewrite E. reflexivity.
Qed.

Ltac vc_case H E :=
  match type of H with context [match v_compare ?p ?q with _ => _ end] => destruct (v_compare p q) as [[]|] eqn:E; try discriminate H end.

Lemma v_compare_eq a : forall y, v_compare a y = Some Eq -> a = y.
Proof.
  induction a; intros y H; destruct y; simpl in H; try discriminate; try reflexivity.
  - injection H as H. apply Z.compare_eq in H. congruence.
  - injection H as H. apply Z.compare_eq in H. congruence.
  - injection H as H. apply bytes_cmp_eq in H. congruence.
  - match goal with |- VBool ?p = VBool ?q => destruct p, q; try discriminate; reflexivity end.
  - vc_case H E1. rewrite (IHa1 _ E1), (IHa2 _ H). reflexivity.
  - rewrite (IHa _ H). reflexivity.
  - rewrite (IHa _ H). reflexivity.
  - rewrite (IHa _ H). reflexivity.
Qed.

Lemma v_compare_antisym a : forall y c, v_compare a y = Some c -> v_compare y a = Some (CompOpp c).
Proof.
  induction a; intros y c H; destruct y; simpl in H |- *; try discriminate; try (apply IHa; exact H);
    try (injection H as <-; reflexivity).
  - injection H as <-. f_equal. apply Z.compare_antisym.
  - injection H as <-. f_equal. apply Z.compare_antisym.
  - injection H as <-. f_equal. apply bytes_cmp_antisym.
  - injection H as <-. repeat match goal with b : bool |- _ => destruct b end; reflexivity.
  - vc_case H E1.
    + rewrite (IHa1 _ _ E1). simpl. apply IHa2. exact H.
    + injection H as <-. rewrite (IHa1 _ _ E1). reflexivity.
    + injection H as <-. rewrite (IHa1 _ _ E1). reflexivity.
Qed.

Lemma v_compare_trans a : forall y w, v_compare a y = Some Lt -> v_compare y w = Some Lt -> v_compare a w = Some Lt.
Proof.
  induction a; intros y w H1 H2; destruct y; simpl in H1; try discriminate; destruct w; simpl in H2 |- *; try discriminate;
    try reflexivity; try (eapply IHa; eassumption).
  - injection H1 as H1. injection H2 as H2. f_equal. rewrite Z.compare_lt_iff in H1, H2.
    apply Z.compare_lt_iff. lia.
  - injection H1 as H1. injection H2 as H2. f_equal. rewrite Z.compare_lt_iff in H1, H2.
    apply Z.compare_lt_iff. lia.
  - injection H1 as H1. injection H2 as H2. f_equal. eapply bytes_cmp_trans; eassumption.
  - repeat match goal with b : bool |- _ => destruct b end; try discriminate; reflexivity.
  - vc_case H1 E1; vc_case H2 E2.
    + apply v_compare_eq in E2. subst. rewrite E1. eapply IHa2; eassumption.
    + apply v_compare_eq in E1. subst. rewrite E2. reflexivity.
    + apply v_compare_eq in E2. subst. rewrite E1. reflexivity.
    + rewrite (IHa1 _ _ E1 E2). reflexivity.
Qed.

(* ---- strictly sorted lists ---- *)
Definition v_lt (a b : value) : Prop := v_compare a b = Some Lt.

Lemma v_sorted_cons x l : v_strict_sorted (x :: l) = true ->
  v_strict_sorted l = true /\ Forall (v_lt x) l.
Proof.
  revert x. induction l as [|y r IH]; intros x H; [split; [reflexivity | constructor]|].
  cbn [v_strict_sorted] in H. destruct (v_compare x y) as [[]|] eqn:E; try discriminate.
  destruct (IH y H) as [S F]. split; [exact H|]. constructor; [exact E|].
  eapply Forall_impl; [|exact F]. intros z Hz. unfold v_lt in *. eapply v_compare_trans; eassumption.
Qed.

Lemma v_sorted_intro x l : v_strict_sorted l = true -> (match l with [] => True | y :: _ => v_lt x y end) ->
  v_strict_sorted (x :: l) = true.
Proof. destruct l as [|y r]; intros S H; [reflexivity|]. cbn [v_strict_sorted]. unfold v_lt in H. rewrite H. exact S. Qed.

Lemma v_sorted_iff x l : v_strict_sorted (x :: l) = true <-> v_strict_sorted l = true /\ Forall (v_lt x) l.
Proof.
  split; [apply v_sorted_cons|]. intros [S F]. apply v_sorted_intro; [exact S|]. destruct l; [exact I|]. inversion F; assumption.
Qed.

Definition cmp_defined (x : value) (l : list value) : Prop := Forall (fun y => v_compare x y <> None) l.

(* ---- sets ---- *)
Lemma v_set_add_Forall (P : value -> Prop) x : forall l l', P x -> Forall P l -> v_set_add x l = Some l' -> Forall P l'.
Proof.
  induction l as [|y r IH]; intros l' Px F H; simpl in H.
  - injection H as <-. constructor; [exact Px | constructor].
  - inversion F as [|? ? Py Fr]; subst. destruct (v_compare x y) as [[]|]; try discriminate.
    + injection H as <-. exact F.
    + injection H as <-. constructor; [exact Px | exact F].
    + destruct (v_set_add x r) as [r'|] eqn:E; [|discriminate]. injection H as <-. constructor; [exact Py|]. eapply IH; eauto.
Qed.

Lemma v_set_add_sorted x : forall l, v_strict_sorted l = true -> cmp_defined x l ->
  exists l', v_set_add x l = Some l' /\ v_strict_sorted l' = true.
Proof.
  induction l as [|y r IH]; intros S D; simpl.
  - exists [x]. auto.
  - inversion D as [|? ? Dy Dr]; subst. apply v_sorted_iff in S as [Sr Fy].
    destruct (v_compare x y) as [[]|] eqn:E; [| | |congruence].
    + exists (y :: r). split; [reflexivity|]. apply v_sorted_iff. auto.
    + exists (x :: y :: r). split; [reflexivity|]. apply v_sorted_intro; [apply v_sorted_iff; auto | exact E].
    + destruct (IH Sr Dr) as (r' & E' & S'). rewrite E'. exists (y :: r'). split; [reflexivity|].
      apply v_sorted_iff. split; [exact S'|]. eapply (v_set_add_Forall (v_lt y)); [|exact Fy|exact E'].
      unfold v_lt. apply v_compare_antisym in E. exact E.
Qed.

Lemma v_no_eq_after x y r : v_compare x y = Some Lt -> Forall (v_lt y) r -> Forall (fun z => v_compare x z = Some Lt) r.
Proof. intros E F. eapply Forall_impl; [|exact F]. intros z Hz. eapply v_compare_trans; eassumption. Qed.

Lemma v_set_remove_id x : forall l, Forall (fun z => v_compare x z = Some Lt) l -> v_set_remove x l = Some l.
Proof.
  induction l as [|y r IH]; intros F; simpl; [reflexivity|]. inversion F as [|? ? Hy Fr]; subst. rewrite Hy, (IH Fr). reflexivity.
Qed.

Lemma v_set_remove_Forall (P : value -> Prop) x : forall l l', Forall P l -> v_set_remove x l = Some l' -> Forall P l'.
Proof.
  induction l as [|y r IH]; intros l' F H; simpl in H.
  - injection H as <-. constructor.
  - inversion F as [|? ? Py Fr]; subst. destruct (v_compare x y) as [[]|]; try discriminate.
    + injection H as <-. exact Fr.
    + destruct (v_set_remove x r) as [r'|] eqn:E; [|discriminate]. injection H as <-. constructor; [exact Py | eapply IH; eauto].
    + destruct (v_set_remove x r) as [r'|] eqn:E; [|discriminate]. injection H as <-. constructor; [exact Py | eapply IH; eauto].
Qed.

Lemma v_set_remove_sorted x : forall l, v_strict_sorted l = true -> cmp_defined x l ->
  exists l', v_set_remove x l = Some l' /\ v_strict_sorted l' = true.
Proof.
  induction l as [|y r IH]; intros S D; simpl.
  - exists []. auto.
  - inversion D as [|? ? Dy Dr]; subst. apply v_sorted_iff in S as [Sr Fy].
    destruct (IH Sr Dr) as (r' & E' & S').
    destruct (v_compare x y) as [[]|] eqn:E; [| | |congruence].
    + exists r. auto.
    + rewrite E'. exists (y :: r'). split; [reflexivity|]. apply v_sorted_iff. split; [exact S'|].
      eapply v_set_remove_Forall; eassumption.
    + rewrite E'. exists (y :: r'). split; [reflexivity|]. apply v_sorted_iff. split; [exact S'|].
      eapply v_set_remove_Forall; eassumption.
Qed.

(* ---- maps: lists of entries VPair key value, strictly sorted by key ---- *)
Definition is_entry (e : value) : Prop := exists k v, e = VPair k v.

Lemma v_map_set_keys (P : value -> Prop) k v : forall l l', P k -> Forall P (map v_key l) -> v_map_set k v l = Some l' ->
  Forall P (map v_key l').
Proof.
  induction l as [|y r IH]; intros l' Pk F H; simpl in H.
  - injection H as <-. simpl. constructor; [exact Pk | constructor].
  - destruct y; try discriminate. simpl in F. inversion F as [|? ? Py Fr]; subst.
    destruct (v_compare k y1) as [[]|]; try discriminate.
    + injection H as <-. simpl. constructor; [exact Pk | exact Fr].
    + injection H as <-. simpl. constructor; [exact Pk|]. constructor; assumption.
    + destruct (v_map_set k v r) as [r'|] eqn:E; [|discriminate]. injection H as <-. simpl. constructor; [exact Py|]. eapply IH; eauto.
Qed.

Lemma v_map_set_sorted k v : forall l, v_strict_sorted (map v_key l) = true -> cmp_defined k (map v_key l) -> Forall is_entry l ->
  exists l', v_map_set k v l = Some l' /\ v_strict_sorted (map v_key l') = true /\ Forall is_entry l'.
Proof.
  induction l as [|y r IH]; intros S D En; simpl.
  - exists [VPair k v]. repeat split; auto. constructor; [exists k, v; reflexivity | constructor].
  - inversion En as [|? ? (k' & v' & ->) Er]; subst. simpl in S, D. inversion D as [|? ? Dy Dr]; subst.
    apply v_sorted_iff in S as [Sr Fy].
    destruct (v_compare k k') as [[]|] eqn:E; [| | |congruence].
    + exists (VPair k v :: r). split; [reflexivity|]. split; [|constructor; [exists k, v; reflexivity | exact Er]].
      cbn [map v_key]. apply v_sorted_iff. split; [exact Sr|]. apply v_compare_eq in E. subst. exact Fy.
    + exists (VPair k v :: VPair k' v' :: r). split; [reflexivity|]. split.
      * cbn [map v_key]. apply v_sorted_intro; [apply v_sorted_iff; auto | exact E].
      * constructor; [exists k, v; reflexivity | exact En].
    + destruct (IH Sr Dr Er) as (r' & E' & S' & En'). rewrite E'. exists (VPair k' v' :: r'). split; [reflexivity|]. split.
      * cbn [map v_key]. apply v_sorted_iff. split; [exact S'|]. eapply (v_map_set_keys (v_lt k')); [|exact Fy|exact E'].
        unfold v_lt. apply v_compare_antisym in E. exact E.
      * constructor; [exists k', v'; reflexivity | exact En'].
Qed.

Lemma v_map_remove_id k : forall l, Forall is_entry l -> Forall (fun z => v_compare k z = Some Lt) (map v_key l) -> v_map_remove k l = Some l.
Proof.
  induction l as [|y r IH]; intros En F; simpl; [reflexivity|]. inversion En as [|? ? (k' & v' & ->) Er]; subst.
  simpl in F. inversion F as [|? ? Hy Fr]; subst. rewrite Hy, (IH Er Fr). reflexivity.
Qed.

Lemma v_map_get_none k : forall l, Forall is_entry l -> Forall (fun z => v_compare k z = Some Lt) (map v_key l) -> v_map_get k l = Some None.
Proof.
  induction l as [|y r IH]; intros En F; simpl; [reflexivity|]. inversion En as [|? ? (k' & v' & ->) Er]; subst.
  simpl in F. inversion F as [|? ? Hy Fr]; subst. rewrite Hy. apply IH; assumption.
Qed.

Lemma v_map_remove_keys (P : value -> Prop) k : forall l l', Forall P (map v_key l) -> v_map_remove k l = Some l' -> Forall P (map v_key l').
Proof.
  induction l as [|y r IH]; intros l' F H; simpl in H.
  - injection H as <-. constructor.
  - destruct y; try discriminate. simpl in F. inversion F as [|? ? Py Fr]; subst.
    destruct (v_compare k y1) as [[]|]; try discriminate.
    + injection H as <-. exact Fr.
    + destruct (v_map_remove k r) as [r'|] eqn:E; [|discriminate]. injection H as <-. simpl. constructor; [exact Py | eapply IH; eauto].
    + destruct (v_map_remove k r) as [r'|] eqn:E; [|discriminate]. injection H as <-. simpl. constructor; [exact Py | eapply IH; eauto].
Qed.

Lemma v_map_remove_sorted k : forall l, v_strict_sorted (map v_key l) = true -> cmp_defined k (map v_key l) -> Forall is_entry l ->
  exists l', v_map_remove k l = Some l' /\ v_strict_sorted (map v_key l') = true /\ Forall is_entry l'.
Proof.
  induction l as [|y r IH]; intros S D En; simpl.
  - exists []. auto.
  - inversion En as [|? ? (k' & v' & ->) Er]; subst. simpl in S, D. inversion D as [|? ? Dy Dr]; subst.
    apply v_sorted_iff in S as [Sr Fy]. destruct (IH Sr Dr Er) as (r' & E' & S' & En').
    destruct (v_compare k k') as [[]|] eqn:E; [| | |congruence].
    + exists r. auto.
    + rewrite E'. exists (VPair k' v' :: r'). split; [reflexivity|]. split.
      * cbn [map v_key]. apply v_sorted_iff. split; [exact S'|]. eapply v_map_remove_keys; eassumption.
      * constructor; [exists k', v'; reflexivity | exact En'].
    + rewrite E'. exists (VPair k' v' :: r'). split; [reflexivity|]. split.
      * cbn [map v_key]. apply v_sorted_iff. split; [exact S'|]. eapply v_map_remove_keys; eassumption.
      * constructor; [exists k', v'; reflexivity | exact En'].
Qed.
