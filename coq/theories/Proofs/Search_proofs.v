(* Proofs/Search_proofs.v — specification of "the state changes of a history" and the proofs
   that the search helpers of Client/Search.v compute exactly them. *)
From Coq Require Import List ZArith Bool Lia Sorted.
From PV Require Import Client.Search.
Import ListNotations.
Local Open Scope Z_scope.
Ltac Zify.zify_post_hook ::= Z.to_euclidean_division_equations.

(* ---- strictly descending level lists and the sampled levels (independent of the history) ---- *)
Fixpoint desc (x : Z) (l : list Z) : Prop :=
  match l with [] => True | y :: r => y < x /\ desc y r end.
Fixpoint bottom (x : Z) (l : list Z) : Z :=
  match l with [] => x | y :: r => bottom y r end.

Lemma desc_bottom_le : forall l x, desc x l -> bottom x l <= x.
Proof.
  induction l as [|y r IH]; intros x H; cbn in *; [lia|].
  destruct H as [H1 H2]. specialize (IH y H2). lia.
Qed.

(* ---- the sampled levels ---- *)
Lemma range_down_props : forall fuel level stop step x, 1 <= step -> level < x ->
  desc x (range_down fuel level stop step) /\ Forall (fun y => stop < y) (range_down fuel level stop step).
Proof.
  induction fuel as [|f IH]; intros level stop step x Hs Hx; cbn [range_down].
  - split; [exact I | constructor].
  - destruct (level >? stop) eqn:E.
    + apply Z.gtb_lt in E. destruct (IH (level - step) stop step level Hs) as [H1 H2]; [lia|].
      split; [split; assumption | constructor; assumption].
    + split; [exact I | constructor].
Qed.

(* the fuel given to range_down is enough: more fuel changes nothing *)
Lemma range_down_fuel : forall f1 f2 level stop step, 1 <= step ->
  level - stop <= Z.of_nat f1 -> level - stop <= Z.of_nat f2 ->
  range_down f1 level stop step = range_down f2 level stop step.
Proof.
  induction f1 as [|f1 IH]; intros f2 level stop step Hs H1 H2.
  - destruct f2 as [|f2]; [reflexivity|]. cbn [range_down].
    destruct (level >? stop) eqn:E; [apply Z.gtb_lt in E; lia | reflexivity].
  - cbn [range_down]. destruct (level >? stop) eqn:E.
    + apply Z.gtb_lt in E. destruct f2 as [|f2]; [lia|]. cbn [range_down].
      rewrite (proj2 (Z.gtb_lt _ _) E). f_equal. apply IH; lia.
    + destruct f2 as [|f2]; [reflexivity|]. cbn [range_down]. now rewrite E.
Qed.

(* every level head - k*step above last is sampled *)
Lemma range_down_complete : forall fuel level stop step k, 1 <= step -> 0 <= k ->
  level - stop <= Z.of_nat fuel -> stop < level - k * step ->
  In (level - k * step) (range_down fuel level stop step).
Proof.
  induction fuel as [|f IH]; intros level stop step k Hs Hk Hf Hin.
  - nia.
  - cbn [range_down]. assert (E : (level >? stop) = true) by (apply Z.gtb_lt; nia). rewrite E.
    destruct (Z.eq_dec k 0) as [-> | Hk0].
    + left. lia.
    + right. replace (level - k * step) with (level - step - (k - 1) * step) by lia.
      apply IH; try lia; nia.
Qed.

Lemma desc_app_bottom : forall l x stop, desc x l -> Forall (fun y => stop < y) l -> stop < x ->
  desc x (l ++ [stop]) /\ bottom x (l ++ [stop]) = stop.
Proof.
  induction l as [|y r IH]; intros x stop Hd Hall Hx; cbn in *.
  - split; [split; [exact Hx | exact I] | reflexivity].
  - destruct Hd as [H1 H2]. inversion Hall as [|? ? Hy Hr]; subst.
    destruct (IH y stop H2 Hr Hy) as [H3 H4]. split; [split; assumption | exact H4].
Qed.

Lemma sample_levels_props head last step : 1 <= step -> last <= head ->
  desc head (sample_levels head last step) /\ bottom head (sample_levels head last step) = last.
Proof.
  intros Hs Hle. unfold sample_levels. destruct (head >? last) eqn:E.
  - apply Z.gtb_lt in E.
    destruct (range_down_props (Z.to_nat (head - last)) (head - step) last step head Hs) as [H1 H2]; [lia|].
    apply desc_app_bottom; auto.
  - assert (head = last).
    { destruct (Z.gtb_spec head last); [discriminate | lia]. }
    subst. rewrite Z.sub_diag. cbn. split; [exact I | reflexivity].
Qed.


(* ======================================================================================
   Main development: the caller's `equals` is (the boolean of) an EQUIVALENCE on values.
   The search looks at values only through `equals`; "change", "never returns" and the
   specification list are all stated modulo that equivalence.  Reported values are the
   values found at the reported levels (get l), not representatives.
   ====================================================================================== *)
Section Proofs.
  Context {V : Type}.
  Variable eqb : V -> V -> bool.
  Hypothesis eqb_refl : forall a, eqb a a = true.
  Hypothesis eqb_sym : forall a b, eqb a b = true -> eqb b a = true.
  Hypothesis eqb_trans : forall a b c, eqb a b = true -> eqb b c = true -> eqb a c = true.
  Variable get : Z -> V.

  Notation "a ~~ b" := (eqb a b = true) (at level 70).

  (* a value never returns (modulo equals): if levels a < c carry equivalent values, so does everything between *)
  Definition no_return (lo hi : Z) : Prop :=
    forall a b c, lo <= a -> a < b -> b < c -> c <= hi -> get a ~~ get c -> get b ~~ get a.

  (* ---- specification: the change points in (lo, hi], lowest first ---- *)
  Fixpoint changes_up (n : nat) (lo : Z) : list (Z * V) :=
    match n with
    | O => []
    | S k => (if eqb (get (lo + 1)) (get lo) then [] else [(lo + 1, get (lo + 1))]) ++ changes_up k (lo + 1)
    end.
  Definition changes (lo hi : Z) : list (Z * V) := changes_up (Z.to_nat (hi - lo)) lo.

  Lemma eqb_sym_false a b : eqb a b = false -> eqb b a = false.
  Proof. intro H. destruct (eqb b a) eqn:E; [|reflexivity]. apply eqb_sym in E. congruence. Qed.

  (* a ~ b, b ~ c, but a !~ c is impossible, in the forms used below *)
  Lemma eqb_false_l a b c : a ~~ b -> eqb b c = false -> eqb a c = false.
  Proof.
    intros H1 H2. destruct (eqb a c) eqn:E; [|reflexivity].
    rewrite (eqb_trans b a c (eqb_sym _ _ H1) E) in H2. discriminate.
  Qed.

  Lemma eqb_false_r a b c : eqb a b = false -> b ~~ c -> eqb a c = false.
  Proof.
    intros H1 H2. destruct (eqb a c) eqn:E; [|reflexivity].
    rewrite (eqb_trans a c b E (eqb_sym _ _ H2)) in H1. discriminate.
  Qed.

  Lemma changes_up_in : forall n lo l v,
    In (l, v) (changes_up n lo) <-> lo < l <= lo + Z.of_nat n /\ v = get l /\ eqb (get l) (get (l - 1)) = false.
  Proof.
    induction n as [|k IH]; intros lo l v.
    - cbn. split; [contradiction | lia].
    - cbn [changes_up]. rewrite in_app_iff, IH.
      destruct (eqb (get (lo + 1)) (get lo)) eqn:E.
      + split.
        * intros [[] | (H1 & H2 & H3)]. split; [lia | now split].
        * intros (H1 & H2 & H3). right. split; [|now split].
          assert (l <> lo + 1).
          { intros ->. replace (lo + 1 - 1) with lo in H3 by lia. congruence. }
          lia.
      + split.
        * intros [[H | []] | (H1 & H2 & H3)].
          -- injection H as <- <-. split; [lia|]. split; [reflexivity|].
             replace (lo + 1 - 1) with lo by lia. exact E.
          -- split; [lia | now split].
        * intros (H1 & H2 & H3). destruct (Z.eq_dec l (lo + 1)) as [-> | Hne].
          -- left. left. now subst v.
          -- right. split; [lia | now split].
  Qed.

  (* exactly the levels of (lo, hi] whose value is not equivalent to the one below, with the value found there *)
  Lemma changes_in lo hi l v : lo <= hi ->
    (In (l, v) (changes lo hi) <-> lo < l <= hi /\ v = get l /\ eqb (get l) (get (l - 1)) = false).
  Proof.
    intro H. unfold changes. rewrite changes_up_in. rewrite Z2Nat.id by lia.
    replace (lo + (hi - lo)) with hi by lia. reflexivity.
  Qed.

  Lemma changes_up_sorted : forall n lo, StronglySorted Z.lt (map fst (changes_up n lo)).
  Proof.
    induction n as [|k IH]; intros lo; cbn [changes_up].
    - constructor.
    - destruct (eqb (get (lo + 1)) (get lo)); cbn [app map fst].
      + apply IH.
      + constructor; [apply IH|].
        apply Forall_forall. intros x Hx. apply in_map_iff in Hx. destruct Hx as [[l v] [<- HIn]].
        apply changes_up_in in HIn. cbn. lia.
  Qed.

  Lemma changes_sorted lo hi : StronglySorted Z.lt (map fst (changes lo hi)).
  Proof. apply changes_up_sorted. Qed.

  Lemma changes_up_app : forall n m lo,
    changes_up (n + m) lo = changes_up n lo ++ changes_up m (lo + Z.of_nat n).
  Proof.
    induction n as [|n IH]; intros m lo.
    - cbn. now rewrite Z.add_0_r.
    - cbn [Nat.add changes_up]. rewrite IH, <- app_assoc.
      replace (lo + 1 + Z.of_nat n) with (lo + Z.of_nat (S n)) by lia. reflexivity.
  Qed.

  Lemma changes_split lo mid hi : lo <= mid -> mid <= hi ->
    changes lo hi = changes lo mid ++ changes mid hi.
  Proof.
    intros H1 H2. unfold changes.
    replace (Z.to_nat (hi - lo)) with (Z.to_nat (mid - lo) + Z.to_nat (hi - mid))%nat by lia.
    rewrite changes_up_app. f_equal. f_equal. lia.
  Qed.

  Lemma changes_up_const : forall n lo,
    (forall m, lo <= m <= lo + Z.of_nat n -> get m ~~ get lo) -> changes_up n lo = [].
  Proof.
    induction n as [|k IH]; intros lo H; [reflexivity|].
    cbn [changes_up].
    assert (E : get (lo + 1) ~~ get lo) by (apply H; lia).
    rewrite E. cbn [app]. apply IH.
    intros m Hm. apply (eqb_trans _ (get lo)); [apply H; lia | now apply eqb_sym].
  Qed.

  Lemma changes_const lo hi :
    (forall m, lo <= m <= hi -> get m ~~ get lo) -> changes lo hi = [].
  Proof.
    intro H. unfold changes. destruct (Z_le_gt_dec lo hi) as [Hle | Hgt].
    - apply changes_up_const. intros m Hm. apply H. lia.
    - replace (Z.to_nat (hi - lo)) with 0%nat by lia. reflexivity.
  Qed.

  Lemma changes_nil lo : changes lo lo = [].
  Proof. unfold changes. now rewrite Z.sub_diag. Qed.

  Lemma changes_one l : eqb (get l) (get (l - 1)) = false -> changes (l - 1) l = [(l, get l)].
  Proof.
    intro H. unfold changes. replace (l - (l - 1)) with 1 by lia. change (Z.to_nat 1) with 1%nat.
    cbn [changes_up]. replace (l - 1 + 1) with l by lia. now rewrite H.
  Qed.

  (* ---- consequences of no_return ---- *)
  Lemma no_return_sub lo hi lo' hi' : no_return lo hi -> lo <= lo' -> hi' <= hi -> no_return lo' hi'.
  Proof. intros H H1 H2 a b c Ha Hab Hbc Hc. apply H; lia. Qed.

  Lemma const_between lo hi a b : no_return lo hi -> lo <= a -> a <= b -> b <= hi ->
    get a ~~ get b -> forall m, a <= m <= b -> get m ~~ get a.
  Proof.
    intros H Ha Hab Hb E m Hm.
    destruct (Z.eq_dec m a) as [-> | Hma]; [apply eqb_refl|].
    destruct (Z.eq_dec m b) as [-> | Hmb]; [now apply eqb_sym|].
    apply (H a m b); try lia. exact E.
  Qed.

  (* ---- bisection ---- *)
  (* invariant get start ~ pred, get end !~ pred; needs no hypothesis on the history *)
  Lemma bisect_inv (pred : V) : forall fuel start end_,
    start < end_ -> end_ - start <= Z.of_nat fuel -> get start ~~ pred -> eqb (get end_) pred = false ->
    exists l, bisect eqb get fuel pred start end_ = Some (l, get l) /\
              start < l <= end_ /\ get (l - 1) ~~ pred /\ eqb (get l) pred = false.
  Proof.
    induction fuel as [|fuel IH]; intros start end_ Hlt Hf Hs He.
    - cbn in Hf. lia.
    - cbn [bisect]. destruct (end_ =? start + 1) eqn:E.
      + apply Z.eqb_eq in E. exists end_. split; [reflexivity|]. split; [lia|].
        split; [|exact He]. replace (end_ - 1) with start by lia. exact Hs.
      + apply Z.eqb_neq in E.
        assert (Hlv : start < (end_ + start) / 2 < end_) by lia.
        destruct (eqb (get ((end_ + start) / 2)) pred) eqn:Ev.
        * destruct (IH ((end_ + start) / 2) end_) as (l & H1 & H2 & H3 & H4); try lia; auto.
          exists l. split; [exact H1|]. split; [lia | now split].
        * destruct (IH start ((end_ + start) / 2)) as (l & H1 & H2 & H3 & H4); try lia; auto.
          exists l. split; [exact H1|]. split; [lia | now split].
  Qed.

  Lemma find_state_change_a_change (pred : V) start end_ :
    start < end_ -> get start ~~ pred -> eqb (get end_) pred = false ->
    exists l, find_state_change eqb get end_ start pred = Some (l, get l) /\
              start < l <= end_ /\ get (l - 1) ~~ pred /\ eqb (get l) pred = false.
  Proof.
    intros Hlt Hs He. unfold find_state_change. apply bisect_inv; auto. lia.
  Qed.

  Lemma find_state_change_first (pred : V) start end_ :
    start < end_ -> get start ~~ pred -> eqb (get end_) pred = false -> no_return start end_ ->
    exists l, find_state_change eqb get end_ start pred = Some (l, get l) /\
              start < l <= end_ /\ eqb (get l) pred = false /\ forall m, start <= m < l -> get m ~~ pred.
  Proof.
    intros Hlt Hs He Hnr.
    destruct (find_state_change_a_change pred start end_ Hlt Hs He) as (l & H1 & H2 & H3 & H4).
    exists l. split; [exact H1|]. split; [exact H2|]. split; [exact H4|].
    intros m Hm. apply (eqb_trans _ (get start)); [|exact Hs].
    apply (const_between start end_ start (l - 1)); try lia; auto.
    apply (eqb_trans _ pred); [exact Hs | now apply eqb_sym].
  Qed.

  (* ---- walking one interval; the head value handed over by the interval finder is only
     equivalent to get head (it is the value of an earlier, higher sample) ---- *)
  Lemma walk_correct : forall fuel head hv level,
    hv ~~ get head ->
    level <= head -> head - level <= Z.of_nat fuel -> no_return level head ->
    walk eqb get fuel head hv level (get level) = Some (changes level head).
  Proof.
    induction fuel as [|fuel IH]; intros head hv level Hhv Hle Hf Hnr.
    - assert (level = head) by lia. subst level. cbn [walk].
      rewrite (eqb_sym _ _ Hhv). now rewrite changes_nil.
    - cbn [walk]. destruct (eqb (get level) hv) eqn:E.
      + f_equal. symmetry. apply changes_const.
        apply (const_between level head level head); auto; try lia.
        now apply (eqb_trans _ hv).
      + assert (E' : eqb (get head) (get level) = false).
        { apply eqb_sym_false. apply (eqb_false_r _ hv); assumption. }
        assert (Hlt : level < head).
        { destruct (Z.eq_dec level head) as [-> | Hne]; [rewrite eqb_refl in E'; discriminate | lia]. }
        destruct (find_state_change_first (get level) level head Hlt (eqb_refl _) E' Hnr)
          as (l & H1 & H2 & H3 & H4).
        rewrite H1. rewrite (IH head hv l); try lia; auto.
        * f_equal.
          rewrite (changes_split level (l - 1) head) by lia.
          rewrite (changes_split (l - 1) l head) by lia.
          rewrite (changes_const level (l - 1)) by (intros m Hm; apply H4; lia).
          rewrite changes_one; [reflexivity|].
          apply (eqb_false_r _ (get level)); [exact H3|].
          apply eqb_sym. apply H4. lia.
        * apply (no_return_sub level head); auto; lia.
  Qed.

  Lemma walk_interval_correct lo hi hv : hv ~~ get hi -> lo <= hi -> no_return lo hi ->
    walk_state_change_interval eqb get hi lo hv (get lo) = Some (changes lo hi).
  Proof. intros Hhv H Hnr. unfold walk_state_change_interval. apply walk_correct; auto. lia. Qed.

  Lemma walk_all_app a b :
    walk_all eqb get (a ++ b) =
    match walk_all eqb get a, walk_all eqb get b with Some x, Some y => Some (x ++ y) | _, _ => None end.
  Proof.
    induction a as [|[[[h hv] t] tv] a IH]; cbn [app walk_all].
    - destruct (walk_all eqb get b); reflexivity.
    - rewrite IH.
      destruct (walk_state_change_interval eqb get h t hv tv), (walk_all eqb get a), (walk_all eqb get b);
        try reflexivity.
      now rewrite app_assoc.
  Qed.

  (* ---- the interval finder over ANY strictly descending list of sampled levels; the loop
     keeps the succ_value of the last CHANGE, which is only equivalent to get succ_level ---- *)
  Lemma intervals_correct : forall levels sl sv,
    sv ~~ get sl -> desc sl levels -> no_return (bottom sl levels) sl ->
    walk_all eqb get (rev (intervals_loop eqb get levels sl sv)) = Some (changes (bottom sl levels) sl).
  Proof.
    induction levels as [|level rest IH]; intros sl sv Hsv Hd Hnr.
    - cbn. now rewrite changes_nil.
    - destruct Hd as [Hlt Hd]. cbn [intervals_loop bottom] in *.
      pose proof (desc_bottom_le _ _ Hd) as Hb.
      assert (Hnr' : no_return (bottom level rest) level) by (apply (no_return_sub _ _ _ _ Hnr); lia).
      destruct (eqb (get level) sv) eqn:E.
      + rewrite (IH level sv (eqb_sym _ _ E) Hd Hnr'). f_equal.
        rewrite (changes_split (bottom level rest) level sl) by lia.
        rewrite (changes_const level sl); [now rewrite app_nil_r|].
        apply (const_between (bottom level rest) sl level sl); auto; try lia.
        now apply (eqb_trans _ sv).
      + cbn [rev]. rewrite walk_all_app, (IH level (get level) (eqb_refl _) Hd Hnr').
        cbn [walk_all]. rewrite (walk_interval_correct level sl sv Hsv); try lia.
        * rewrite app_nil_r. f_equal. symmetry. apply changes_split; lia.
        * apply (no_return_sub _ _ _ _ Hnr); lia.
  Qed.

  (* ---- main result ---- *)
  Lemma find_state_changes_exact head last step : 1 <= step -> last <= head -> no_return last head ->
    find_state_changes eqb get head last step = Some (changes last head).
  Proof.
    intros Hs Hle Hnr. unfold find_state_changes, find_state_change_intervals.
    destruct (sample_levels_props head last step Hs Hle) as [Hd Hb].
    rewrite intervals_correct; auto; rewrite Hb; auto.
  Qed.

  (* ---- without any hypothesis on the history: termination and soundness ----
     every reported pair is a genuine change point of the range, levels strictly increase *)
  Definition genuine (lo hi : Z) (r : list (Z * V)) : Prop :=
    (forall l v, In (l, v) r -> lo < l <= hi /\ v = get l /\ eqb (get l) (get (l - 1)) = false) /\
    StronglySorted Z.lt (map fst r).

  Lemma sorted_app (a b : list Z) : StronglySorted Z.lt a -> StronglySorted Z.lt b ->
    (forall x y, In x a -> In y b -> x < y) -> StronglySorted Z.lt (a ++ b).
  Proof.
    induction a as [|x a IH]; intros Ha Hb Hab; cbn [app]; [exact Hb|].
    inversion Ha as [|? ? Ha' Hx]; subst. constructor.
    - apply IH; auto. intros u w Hu Hw. apply Hab; [now right | exact Hw].
    - apply Forall_forall. intros y Hy. apply in_app_or in Hy. destruct Hy as [Hy | Hy].
      + rewrite Forall_forall in Hx. now apply Hx.
      + apply Hab; [now left | exact Hy].
  Qed.

  Lemma genuine_app lo mid hi a b : lo <= mid -> mid <= hi ->
    genuine lo mid a -> genuine mid hi b -> genuine lo hi (a ++ b).
  Proof.
    intros H1 H2 [Ha1 Ha2] [Hb1 Hb2]. split.
    - intros l v HIn. apply in_app_or in HIn. destruct HIn as [HIn | HIn].
      + destruct (Ha1 l v HIn) as (? & ? & ?). split; [lia | now split].
      + destruct (Hb1 l v HIn) as (? & ? & ?). split; [lia | now split].
    - rewrite map_app. apply sorted_app; auto.
      intros x y Hx Hy. apply in_map_iff in Hx. apply in_map_iff in Hy.
      destruct Hx as [[l v] [<- Hx]]. destruct Hy as [[l' v'] [<- Hy]].
      destruct (Ha1 l v Hx) as (? & _). destruct (Hb1 l' v' Hy) as (? & _). cbn. lia.
  Qed.

  Lemma genuine_weaken lo hi lo' hi' r : genuine lo hi r -> lo' <= lo -> hi <= hi' -> genuine lo' hi' r.
  Proof.
    intros [H1 H2] Hlo Hhi. split; [|exact H2].
    intros l v HIn. destruct (H1 l v HIn) as (? & ? & ?). split; [lia | now split].
  Qed.

  Lemma genuine_nil lo hi : genuine lo hi [].
  Proof. split; [intros l v [] | constructor]. Qed.

  Lemma walk_sound : forall fuel head hv level,
    hv ~~ get head -> level <= head -> head - level <= Z.of_nat fuel ->
    exists r, walk eqb get fuel head hv level (get level) = Some r /\ genuine level head r.
  Proof.
    induction fuel as [|fuel IH]; intros head hv level Hhv Hle Hf.
    - assert (level = head) by lia. subst level. cbn [walk]. rewrite (eqb_sym _ _ Hhv).
      exists []. split; [reflexivity | apply genuine_nil].
    - cbn [walk]. destruct (eqb (get level) hv) eqn:E.
      + exists []. split; [reflexivity | apply genuine_nil].
      + assert (E' : eqb (get head) (get level) = false).
        { apply eqb_sym_false. apply (eqb_false_r _ hv); assumption. }
        assert (Hlt : level < head).
        { destruct (Z.eq_dec level head) as [-> | Hne]; [rewrite eqb_refl in E'; discriminate | lia]. }
        destruct (find_state_change_a_change (get level) level head Hlt (eqb_refl _) E')
          as (l & H1 & H2 & H3 & H4).
        destruct (IH head hv l) as (r & Hr & Hg); try lia; auto.
        rewrite H1, Hr. exists ((l, get l) :: r). split; [reflexivity|].
        change ((l, get l) :: r) with ([(l, get l)] ++ r).
        apply (genuine_app level l head); try lia; [|exact Hg].
        split.
        * intros l' v' [HIn | []]. injection HIn as <- <-.
          split; [lia|]. split; [reflexivity|].
          apply (eqb_false_r _ (get level)); [exact H4 | now apply eqb_sym].
        * cbn. constructor; constructor.
  Qed.

  Lemma intervals_sound : forall levels sl sv, sv ~~ get sl -> desc sl levels ->
    exists r, walk_all eqb get (rev (intervals_loop eqb get levels sl sv)) = Some r /\
              genuine (bottom sl levels) sl r.
  Proof.
    induction levels as [|level rest IH]; intros sl sv Hsv Hd.
    - exists []. split; [reflexivity | apply genuine_nil].
    - destruct Hd as [Hlt Hd]. cbn [intervals_loop bottom].
      pose proof (desc_bottom_le _ _ Hd) as Hb.
      destruct (eqb (get level) sv) eqn:E.
      + destruct (IH level sv (eqb_sym _ _ E) Hd) as (r1 & Hr1 & Hg1).
        exists r1. split; [exact Hr1|].
        apply (genuine_weaken _ _ _ _ _ Hg1); lia.
      + destruct (IH level (get level) (eqb_refl _) Hd) as (r1 & Hr1 & Hg1).
        cbn [rev]. rewrite walk_all_app, Hr1. cbn [walk_all].
        destruct (walk_sound (Z.to_nat (sl - level)) sl sv level Hsv) as (r2 & Hr2 & Hg2); try lia.
        unfold walk_state_change_interval. rewrite Hr2. exists (r1 ++ r2 ++ []). split; [reflexivity|].
        rewrite app_nil_r. apply (genuine_app _ level _); auto; lia.
  Qed.

  Lemma find_state_changes_sound head last step : 1 <= step -> last <= head ->
    exists r, find_state_changes eqb get head last step = Some r /\ genuine last head r.
  Proof.
    intros Hs Hle. unfold find_state_changes, find_state_change_intervals.
    destruct (sample_levels_props head last step Hs Hle) as [Hd Hb].
    destruct (intervals_sound _ head (get head) (eqb_refl _) Hd) as (r & Hr & Hg). exists r. split; [exact Hr|].
    now rewrite Hb in Hg.
  Qed.
End Proofs.

(* ======================================================================================
   Corollaries for an `equals` that decides equality (the callers of pytezos pass ==):
   the statements in terms of = and <>.
   ====================================================================================== *)
Section Equality.
  Context {V : Type}.
  Variable eqb : V -> V -> bool.
  Hypothesis eqb_spec : forall a b, eqb a b = true <-> a = b.
  Variable get : Z -> V.

  Definition no_return_eq (lo hi : Z) : Prop :=
    forall a b c, lo <= a -> a < b -> b < c -> c <= hi -> get a = get c -> get b = get a.

  Lemma eq_refl' a : eqb a a = true. Proof. now apply eqb_spec. Qed.
  Lemma eq_sym' a b : eqb a b = true -> eqb b a = true.
  Proof. intro H. apply eqb_spec in H. apply eqb_spec. congruence. Qed.
  Lemma eq_trans' a b c : eqb a b = true -> eqb b c = true -> eqb a c = true.
  Proof. intros H1 H2. apply eqb_spec in H1. apply eqb_spec in H2. apply eqb_spec. congruence. Qed.

  Lemma eqb_false_iff a b : eqb a b = false <-> a <> b.
  Proof.
    split.
    - intros H E. apply eqb_spec in E. congruence.
    - intros H. destruct (eqb a b) eqn:E; [|reflexivity]. apply eqb_spec in E. contradiction.
  Qed.

  Lemma no_return_eq_iff lo hi : no_return_eq lo hi <-> no_return eqb get lo hi.
  Proof.
    split; intros H a b c Ha Hab Hbc Hc E.
    - apply eqb_spec. apply (H a b c); auto. now apply eqb_spec.
    - apply eqb_spec. apply (H a b c); auto. now apply eqb_spec.
  Qed.

  Lemma changes_in_eq lo hi l v : lo <= hi ->
    (In (l, v) (changes eqb get lo hi) <-> lo < l <= hi /\ v = get l /\ get l <> get (l - 1)).
  Proof. intro H. rewrite (changes_in eqb eq_refl' eq_sym' eq_trans' get lo hi l v H), eqb_false_iff. reflexivity. Qed.

  Lemma find_state_changes_exact_eq head last step : 1 <= step -> last <= head -> no_return_eq last head ->
    find_state_changes eqb get head last step = Some (changes eqb get last head).
  Proof.
    intros Hs Hle Hnr. apply (find_state_changes_exact eqb eq_refl' eq_sym' eq_trans'); auto.
    now apply no_return_eq_iff.
  Qed.

  Lemma find_state_change_first_eq (pred : V) start end_ :
    start < end_ -> get start = pred -> get end_ <> pred -> no_return_eq start end_ ->
    exists l, find_state_change eqb get end_ start pred = Some (l, get l) /\
              start < l <= end_ /\ get l <> pred /\ forall m, start <= m < l -> get m = pred.
  Proof.
    intros Hlt Hs He Hnr.
    destruct (find_state_change_first eqb eq_refl' eq_sym' eq_trans' get pred start end_ Hlt)
      as (l & H1 & H2 & H3 & H4).
    - now apply eqb_spec.
    - now apply eqb_false_iff.
    - now apply no_return_eq_iff.
    - exists l. split; [exact H1|]. split; [exact H2|]. split; [now apply eqb_false_iff|].
      intros m Hm. apply eqb_spec. now apply H4.
  Qed.

  Lemma find_state_change_a_change_eq (pred : V) start end_ :
    start < end_ -> get start = pred -> get end_ <> pred ->
    exists l, find_state_change eqb get end_ start pred = Some (l, get l) /\
              start < l <= end_ /\ get (l - 1) = pred /\ get l <> pred.
  Proof.
    intros Hlt Hs He.
    destruct (find_state_change_a_change eqb eq_refl' eq_sym' eq_trans' get pred start end_ Hlt) as (l & H1 & H2 & H3 & H4).
    - now apply eqb_spec.
    - now apply eqb_false_iff.
    - exists l. split; [exact H1|]. split; [exact H2|]. split; [now apply eqb_spec | now apply eqb_false_iff].
  Qed.

  Lemma find_state_changes_sound_eq head last step : 1 <= step -> last <= head ->
    exists r, find_state_changes eqb get head last step = Some r /\
              (forall l v, In (l, v) r -> last < l <= head /\ v = get l /\ get l <> get (l - 1)) /\
              StronglySorted Z.lt (map fst r).
  Proof.
    intros Hs Hle.
    destruct (find_state_changes_sound eqb eq_refl' eq_sym' eq_trans' get head last step Hs Hle) as (r & Hr & Hg1 & Hg2).
    exists r. split; [exact Hr|]. split; [|exact Hg2].
    intros l v HIn. destruct (Hg1 l v HIn) as (? & ? & ?). split; [assumption|]. split; [assumption|].
    now apply eqb_false_iff.
  Qed.
End Equality.
