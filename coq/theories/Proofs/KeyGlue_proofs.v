(* Proofs/KeyGlue_proofs.v — lemmas about Client/KeyGlue.v and the signing part of Client/KeyStore.v (C07). *)
From Coq Require Import String.
From Coq Require Import List NArith ZArith Bool Arith Lia.
From Coq.Strings Require Import Byte.
From PV Require Import Base.Bytes Base.Result Client.KeyGlue Client.KeyStore.
Import ListNotations.
Local Open Scope list_scope.

Lemma check_signature_def P pk sg msg k :
  from_encoded_key P (PS pk) None = Ok k ->
  check_signature P pk sg msg =
    match key_verify P k (PS sg) (PB msg) with Valid => Ok true | Invalid => Ok false | Crashed => Reject end.
Proof. intro H. unfold check_signature. rewrite H. reflexivity. Qed.
