(* Proofs/KeyGlue_proofs.v — lemmas about Client/KeyGlue.v and the signing part of Client/KeyStore.v (C07). *)
From Coq Require Import String.
From Coq Require Import List NArith ZArith Bool Arith Lia.
From Coq.Strings Require Import Byte.
From PV Require Import Base.Bytes Base.Result Client.KeyGlue Client.KeyStore.
Import ListNotations.
Local Open Scope list_scope.

(* ------------------------------------------------------------------------------------------- *)
(* lists and prefixes                                                                          *)
(* ------------------------------------------------------------------------------------------- *)

Lemma bytes_eqb_refl b : bytes_eqb b b = true.
Proof. apply bytes_eqb_spec. reflexivity. Qed.

Lemma bytes_eqb_eq a b : bytes_eqb a b = true -> a = b.
Proof. apply bytes_eqb_spec. Qed.

Lemma bytes_eqb_neq a b : a <> b -> bytes_eqb a b = false.
Proof.
  intro H. destruct (bytes_eqb a b) eqn:E; [|reflexivity].
  apply bytes_eqb_spec in E. contradiction.
Qed.

Lemma starts_with_app p v : starts_with p (p ++ v) = true.
Proof.
  unfold starts_with. rewrite firstn_app, Nat.sub_diag, firstn_all. simpl.
  rewrite app_nil_r. apply bytes_eqb_refl.
Qed.

Lemma skipn_app_exact {A} (p v : list A) : skipn (length p) (p ++ v) = v.
Proof. induction p as [|x p IH]; simpl; auto. Qed.

Lemma firstn_app_exact {A} (p v : list A) : firstn (length p) (p ++ v) = p.
Proof. induction p as [|x p IH]; simpl; [reflexivity | now rewrite IH]. Qed.

Lemma firstn_app_len {A} n (p v : list A) : length p = n -> firstn n (p ++ v) = p.
Proof. intros <-. apply firstn_app_exact. Qed.

Lemma skipn_app_len {A} n (p v : list A) : length p = n -> skipn n (p ++ v) = v.
Proof. intros <-. apply skipn_app_exact. Qed.

Lemma starts_with_split p v : starts_with p v = true -> v = p ++ skipn (length p) v.
Proof.
  unfold starts_with. intro H. apply bytes_eqb_eq in H.
  rewrite <- H at 1. symmetry. apply firstn_skipn.
Qed.

Lemma firstn_firstn_le {A} (n m : nat) (l : list A) : n <= m -> firstn n (firstn m l) = firstn n l.
Proof. intro H. rewrite firstn_firstn. now rewrite Nat.min_l. Qed.

Lemma starts_with_firstn p e n : starts_with p e = true -> n <= length p -> firstn n e = firstn n p.
Proof.
  intros H Hn. apply starts_with_split in H. rewrite H.
  rewrite firstn_app. replace (n - length p) with 0 by lia. simpl. now rewrite app_nil_r.
Qed.

Lemma firstn_comparable {A} (a b : nat) (e : list A) :
  a <= b -> firstn a (firstn b e) = firstn a e.
Proof. apply firstn_firstn_le. Qed.

(* two prefixes of the same string are comparable *)
Lemma starts_with_comparable p1 p2 e :
  starts_with p1 e = true -> starts_with p2 e = true ->
  starts_with p1 p2 = true \/ starts_with p2 p1 = true.
Proof.
  intros H1 H2. unfold starts_with in *.
  apply bytes_eqb_eq in H1. apply bytes_eqb_eq in H2.
  destruct (Nat.le_ge_cases (length p1) (length p2)) as [L|L].
  - left. rewrite <- H2. rewrite firstn_firstn_le by exact L. rewrite H1. apply bytes_eqb_refl.
  - right. rewrite <- H1. rewrite firstn_firstn_le by exact L. rewrite H2. apply bytes_eqb_refl.
Qed.

Lemma find_dominated {A} (f g : A -> bool) (l : list A) (r : A) :
  (forall x, In x l -> f x = true -> g x = true) ->
  find g l = Some r -> f r = true -> find f l = Some r.
Proof.
  induction l as [|x l IH]; simpl; intros Hd Hg Hf; [discriminate|].
  destruct (g x) eqn:Gx.
  - injection Hg as ->. now rewrite Hf.
  - destruct (f x) eqn:Fx.
    + rewrite (Hd x (or_introl eq_refl) Fx) in Gx. discriminate.
    + apply IH; auto.
Qed.

Lemma row_eqb_eq a b : row_eqb a b = true -> a = b.
Proof.
  unfold row_eqb. intro H.
  apply andb_true_iff in H as [H H4]. apply andb_true_iff in H as [H H3]. apply andb_true_iff in H as [H1 H2].
  apply bytes_eqb_eq in H1. apply bytes_eqb_eq in H3. apply Nat.eqb_eq in H2. apply Nat.eqb_eq in H4.
  destruct a, b; simpl in *; subst; reflexivity.
Qed.

(* ------------------------------------------------------------------------------------------- *)
(* facts about the concrete table, by computation                                              *)
(* ------------------------------------------------------------------------------------------- *)

Definition enc_match_len (n : nat) (prefix : bytes) (r : row) : bool :=
  Nat.eqb n (r_paylen r) && bytes_eqb prefix (r_txt r).

Definition compat (r r' : row) : bool :=
  Nat.eqb (r_enclen r) (r_enclen r') &&
  (starts_with (r_txt r) (r_txt r') || starts_with (r_txt r') (r_txt r)).

(* a character that makes bytes.fromhex fail wherever it stands *)
Definition badc (c : N) : bool :=
  match hexdig c with None => negb (is_space c) | Some _ => false end.

Definition row_ok (r : row) : bool :=
  match find (enc_match_len (r_paylen r) (r_txt r)) table with Some r' => row_eqb r' r | None => false end &&
  match find (compat r) table with Some r' => row_eqb r' r | None => false end &&
  match str_of (r_txt r) with c :: _ => negb (c =? 48)%N | [] => false end &&
  existsb badc (str_of (r_txt r)).

Lemma used_rows_ok : forallb row_ok used_rows = true.
Proof. vm_compute. reflexivity. Qed.

Lemma used_row_ok r : In r used_rows -> row_ok r = true.
Proof. intro H. exact (proj1 (forallb_forall row_ok used_rows) used_rows_ok r H). Qed.

Lemma find_enc P r p : In r used_rows -> length p = r_paylen r ->
  base58_encode P p (r_txt r) = Ok (b58enc P (r_bin r ++ p)).
Proof.
  intros Hin Hlen. apply used_row_ok in Hin. unfold row_ok in Hin.
  apply andb_true_iff in Hin as [Hin _]. apply andb_true_iff in Hin as [Hin _]. apply andb_true_iff in Hin as [Hin _].
  unfold base58_encode.
  replace (find (enc_match p (r_txt r)) table) with (find (enc_match_len (r_paylen r) (r_txt r)) table).
  - destruct (find _ table) as [r'|]; [|discriminate]. apply row_eqb_eq in Hin. subst. reflexivity.
  - unfold enc_match, enc_match_len. rewrite Hlen. reflexivity.
Qed.

Lemma find_dec r e : In r used_rows -> length e = r_enclen r -> starts_with (r_txt r) e = true ->
  find (dec_match e) table = Some r.
Proof.
  intros Hin Hlen Hst. apply used_row_ok in Hin. unfold row_ok in Hin.
  apply andb_true_iff in Hin as [Hin _]. apply andb_true_iff in Hin as [Hin _]. apply andb_true_iff in Hin as [_ Hin].
  destruct (find (compat r) table) as [r'|] eqn:F; [|discriminate]. apply row_eqb_eq in Hin. subst r'.
  apply (find_dominated (dec_match e) (compat r)); auto.
  - intros x _ Hx. unfold dec_match in Hx. apply andb_true_iff in Hx as [Hx1 Hx2].
    apply Nat.eqb_eq in Hx1. unfold compat. apply andb_true_iff. split.
    + apply Nat.eqb_eq. congruence.
    + apply orb_true_iff. exact (starts_with_comparable _ _ _ Hst Hx2).
  - unfold dec_match. rewrite Hlen, Nat.eqb_refl, Hst. reflexivity.
Qed.

(* ------------------------------------------------------------------------------------------- *)
(* base58_encode / base58_decode round trip for the rows the key glue uses                      *)
(* ------------------------------------------------------------------------------------------- *)

Lemma b58_round P (L : b58_laws P) r p : In r used_rows -> length p = r_paylen r ->
  let e := b58enc P (r_bin r ++ p) in
  base58_encode P p (r_txt r) = Ok e /\ base58_decode P e = Ok p /\
  length e = r_enclen r /\ starts_with (r_txt r) e = true.
Proof.
  intros Hin Hlen e. destruct (b58_shape P L r p Hin Hlen) as [Hl Hs]. fold e in Hl, Hs.
  split; [exact (find_enc P r p Hin Hlen)|]. split; [|split; assumption].
  unfold base58_decode. rewrite (find_dec r e Hin Hl Hs).
  unfold e. rewrite (b58_inv P L). rewrite starts_with_app, skipn_app_exact. reflexivity.
Qed.

(* ------------------------------------------------------------------------------------------- *)
(* scrub_input                                                                                 *)
(* ------------------------------------------------------------------------------------------- *)

Lemma fromhex_bad s : existsb badc s = true -> forall top, fromhex_aux s top = None.
Proof.
  induction s as [|c s IH]; simpl; intros H top; [discriminate|].
  unfold badc in H at 1. destruct (hexdig c) as [d|] eqn:Hd.
  - simpl in H. destruct top as [t|].
    + rewrite (IH H None). reflexivity.
    + destruct (is_space c); apply IH; exact H.
  - destruct (is_space c) eqn:Sp; simpl in H.
    + destruct top as [t|]; [reflexivity|]. apply IH; exact H.
    + destruct top as [t|]; reflexivity.
Qed.

Lemma str_of_app a b : str_of (a ++ b) = str_of a ++ str_of b.
Proof. unfold str_of. apply map_app. Qed.

Lemma forallb_map' {A B} (f : B -> bool) (g : A -> B) l : forallb f (map g l) = forallb (fun x => f (g x)) l.
Proof. induction l as [|x l IH]; simpl; [reflexivity | now rewrite IH]. Qed.

Lemma ascii_encode_str_of e :
  forallb (fun b => is_ascii (Byte.to_N b)) e = true -> ascii_encode (str_of e) = Some e.
Proof.
  intro H. unfold ascii_encode, str_of. rewrite forallb_map'. rewrite H.
  rewrite map_map. f_equal. rewrite <- (map_id e) at 2. apply map_ext. intro b. apply b8_to_N.
Qed.

(* a base58 text of a used row is not read as hex: scrub_input returns its ASCII bytes *)
Lemma scrub_b58_text r e : In r used_rows -> starts_with (r_txt r) e = true ->
  forallb (fun b => is_ascii (Byte.to_N b)) e = true ->
  scrub_input (PS (str_of e)) = Ok e.
Proof.
  intros Hin Hst Hasc. apply used_row_ok in Hin. unfold row_ok in Hin.
  apply andb_true_iff in Hin as [Hin Hbad]. apply andb_true_iff in Hin as [_ Hhd].
  unfold scrub_input. apply starts_with_split in Hst.
  assert (Hno : fromhex (rm0x (str_of e)) = None).
  { rewrite Hst, str_of_app.
    destruct (str_of (r_txt r)) as [|c t] eqn:T; [discriminate|].
    assert (R : rm0x ((c :: t) ++ str_of (skipn (length (r_txt r)) e)) = (c :: t) ++ str_of (skipn (length (r_txt r)) e)).
    { simpl. destruct c as [|pc]; [reflexivity|].
      destruct (N.eqb_spec (N.pos pc) 48) as [E|E]; [discriminate|].
      unfold rm0x. destruct pc as [pc|pc|]; try reflexivity.
      repeat (destruct pc as [pc|pc|]; try reflexivity); exfalso; apply E; reflexivity. }
    rewrite R. unfold fromhex. apply fromhex_bad. rewrite existsb_app, Hbad. reflexivity. }
  rewrite Hno. rewrite (ascii_encode_str_of e Hasc). reflexivity.
Qed.

(* ------------------------------------------------------------------------------------------- *)
(* big-endian numbers (P-256 signatures are r and s written on 32 bytes each)                  *)
(* ------------------------------------------------------------------------------------------- *)

Lemma be_to_N_acc_snoc acc l b : be_to_N_acc acc (l ++ [b]) = (be_to_N_acc acc l * 256 + Byte.to_N b)%N.
Proof. revert acc. induction l as [|x l IH]; simpl; intro acc; [reflexivity | apply IH]. Qed.

Lemma be_to_N_snoc l b : be_to_N (l ++ [b]) = (be_to_N l * 256 + Byte.to_N b)%N.
Proof. apply be_to_N_acc_snoc. Qed.

Lemma length_N_to_be w n : length (N_to_be w n) = w.
Proof.
  revert n. induction w as [|w IH]; intro n; simpl; [reflexivity|].
  rewrite app_length, IH. simpl. lia.
Qed.

Lemma be_to_N_to_be w n : be_to_N (N_to_be w n) = (n mod 256 ^ N.of_nat w)%N.
Proof.
  revert n. induction w as [|w IH]; intro n.
  - simpl. rewrite N.mod_1_r. reflexivity.
  - cbn [N_to_be]. rewrite be_to_N_snoc, IH, to_N_b8.
    rewrite Nat2N.inj_succ, N.pow_succ_r'.
    assert (Hp : (256 ^ N.of_nat w <> 0)%N) by (apply N.pow_nonzero; discriminate).
    rewrite (N.mod_mul_r n 256 (256 ^ N.of_nat w)) by (auto; discriminate). lia.
Qed.

Lemma to_bytes_be_32 n : (n < 2 ^ 256)%N ->
  to_bytes_be 32 n = Some (N_to_be 32 n) /\ be_to_N (N_to_be 32 n) = n /\ length (N_to_be 32 n) = 32.
Proof.
  intro H. assert (E : (256 ^ N.of_nat 32 = 2 ^ 256)%N) by (vm_compute; reflexivity).
  split; [|split].
  - unfold to_bytes_be. rewrite E. apply N.ltb_lt in H. rewrite H. reflexivity.
  - rewrite be_to_N_to_be, E. apply N.mod_small. exact H.
  - apply length_N_to_be.
Qed.

(* ------------------------------------------------------------------------------------------- *)
(* the rows of the table the key glue selects                                                  *)
(* ------------------------------------------------------------------------------------------- *)

Definition sig_row (c : curve) (g : bool) : row :=
  if g && negb (curve_eqb c BL) then mkrow "sig" 96 "04822b" 64
  else match c with
       | Ed => mkrow "edsig" 99 "09f5cd8612" 64
       | Sp => mkrow "spsig" 99 "0d7365133f" 64
       | P2 => mkrow "p2sig" 98 "36f02c34" 64
       | BL => mkrow "BLsig" 142 "28ab40cf" 96
       end.

Definition pk_row (c : curve) : row :=
  match c with
  | Ed => mkrow "edpk" 54 "0d0f25d9" 32
  | Sp => mkrow "sppk" 55 "03fee256" 33
  | P2 => mkrow "p2pk" 55 "03b28b7f" 33
  | BL => mkrow "BLpk" 76 "069587cc" 48
  end.

Lemma existsb_row_In r l : existsb (row_eqb r) l = true -> In r l.
Proof.
  intro H. apply existsb_exists in H as [x [Hx E]]. apply row_eqb_eq in E. subst. exact Hx.
Qed.

Lemma sig_row_used c g : In (sig_row c g) used_rows.
Proof. apply existsb_row_In. destruct c, g; vm_compute; reflexivity. Qed.

Lemma sig_row_txt c g : r_txt (sig_row c g) = sig_prefix (curve_tag c) g.
Proof. destruct c, g; vm_compute; reflexivity. Qed.

Lemma sig_row_paylen c g : r_paylen (sig_row c g) = siglen c.
Proof. destruct c, g; reflexivity. Qed.

Lemma pk_row_used c : In (pk_row c) used_rows.
Proof. apply existsb_row_In. destruct c; vm_compute; reflexivity. Qed.

Lemma pk_row_txt c : r_txt (pk_row c) = curve_tag c ++ tx "pk".
Proof. destruct c; vm_compute; reflexivity. Qed.

Lemma pk_row_paylen c : r_paylen (pk_row c) = pklen c.
Proof. destruct c; reflexivity. Qed.

Lemma curve_of_tag_tag c : curve_of_tag (curve_tag c) = Some c.
Proof. destruct c; vm_compute; reflexivity. Qed.

(* the curve / prefix test of Key.verify on a signature text of row [sig_row c' g], for a key of curve [c] *)
Lemma prefix_check c c' g :
  negb (bytes_eqb (firstn 3 (r_txt (sig_row c' g))) (tx "sig")) &&
  negb (bytes_eqb (curve_tag c) (firstn 2 (r_txt (sig_row c' g))))
  = negb ((g && negb (curve_eqb c' BL)) || curve_eqb c c').
Proof. destruct c, c', g; vm_compute; reflexivity. Qed.

Lemma sig_row_txt_len c g : 3 <= length (r_txt (sig_row c g)).
Proof. destruct c, g; vm_compute; lia. Qed.

Lemma nonempty_true b : b <> [] -> nonempty b = true.
Proof. destruct b; [contradiction | reflexivity]. Qed.

(* ------------------------------------------------------------------------------------------- *)
(* Key.verify is the native verdict on (public point, decoded signature, payload)              *)
(* ------------------------------------------------------------------------------------------- *)

Lemma verify_wellformed P (L : b58_laws P) k c c' g raw m em :
  ktag k = curve_tag c -> pub k <> [] -> scrub_input m = Ok em -> length raw = siglen c' ->
  key_verify P k (PS (str_of (b58enc P (r_bin (sig_row c' g) ++ raw)))) m =
    if (g && negb (curve_eqb c' BL)) || curve_eqb c c' then raw_verify P c (pub k) raw em else Invalid.
Proof.
  intros Htag Hpub Hm Hraw.
  pose proof (sig_row_used c' g) as Hin.
  assert (Hlen : length raw = r_paylen (sig_row c' g)) by (rewrite sig_row_paylen; exact Hraw).
  destruct (b58_round P L _ raw Hin Hlen) as [_ [Hdec [Hel Hst]]].
  set (e := b58enc P (r_bin (sig_row c' g) ++ raw)) in *.
  assert (Hscr : scrub_input (PS (str_of e)) = Ok e).
  { apply (scrub_b58_text (sig_row c' g)); auto. apply (b58_ascii P L). }
  unfold key_verify. rewrite Hscr, Hm. rewrite (nonempty_true _ Hpub). cbn [negb].
  rewrite (starts_with_firstn _ e 3 Hst (sig_row_txt_len c' g)).
  rewrite (starts_with_firstn _ e 2 Hst) by (pose proof (sig_row_txt_len c' g); lia).
  rewrite Htag, prefix_check.
  destruct ((g && negb (curve_eqb c' BL)) || curve_eqb c c'); cbn [negb]; [|reflexivity].
  rewrite Hdec, curve_of_tag_tag. reflexivity.
Qed.

(* ------------------------------------------------------------------------------------------- *)
(* native signing followed by native verification, through the glue                            *)
(* ------------------------------------------------------------------------------------------- *)

Lemma keypair_pk_len P (L : sig_laws P) c se pk sk : keypair P c se pk sk -> length pk = pklen c.
Proof.
  destruct c; simpl; intro H.
  - destruct H as [H | [_ [_ [seed H]]]]; apply (sl_ed P L _ _ _ []) in H; tauto.
  - destruct H as [H _]. apply (sl_sp P L _ _ []) in H. tauto.
  - destruct H as [H _]. apply (sl_p2 P L _ _ []) in H. tauto.
  - destruct H as [H _]. apply (sl_bl P L _ _ []) in H. tauto.
Qed.

Lemma raw_sign_verify P (L : sig_laws P) c se pk sk em :
  keypair P c se pk sk ->
  exists raw, raw_sign P c sk em = Ok raw /\ length raw = siglen c /\ raw_verify P c pk raw em = Valid.
Proof.
  destruct c; unfold keypair, raw_sign, raw_verify, siglen; cbn beta iota; intro H.
  - assert (H' : exists seed, ed_seed_keypair P seed = Some (pk, sk)).
    { destruct H as [H | [_ [-> [seed H]]]]; eauto. }
    destruct H' as [seed H'].
    destruct (sl_ed P L _ _ _ (blake2b P 32 em) H') as [_ [_ [_ [_ [s [Hs [Hl Hv]]]]]]].
    exists s. rewrite Hs, Hv. auto.
  - destruct H as [H ->].
    destruct (sl_sp P L _ _ (blake2b P 32 em) H) as [_ [Hd [s [Hs [Hl [Hp Hv]]]]]].
    exists s. rewrite Hs, Hd, Hp, Hv. auto.
  - destruct H as [H ->].
    destruct (sl_p2 P L _ _ (blake2b P 32 em) H) as [_ [Hd [r [s [Hs [Hr [Hs' Hv]]]]]]].
    destruct (to_bytes_be_32 r Hr) as [Er [Vr Lr]]. destruct (to_bytes_be_32 s Hs') as [Es [Vs Ls]].
    exists (N_to_be 32 r ++ N_to_be 32 s). rewrite Hs, Er, Es. split; [reflexivity|]. split.
    + rewrite app_length, Lr, Ls. reflexivity.
    + rewrite Hd. rewrite (firstn_app_len 32 _ (N_to_be 32 s) Lr), (skipn_app_len 32 _ (N_to_be 32 s) Lr), Vr, Vs, Hv. reflexivity.
  - destruct H as [H ->].
    destruct (sl_bl P L _ _ em H) as [_ [s [Hs [Hl Hv]]]].
    exists s. rewrite Hs, Hv. auto.
Qed.

Lemma keypair_secret_nonempty P (L : sig_laws P) c se pk sk : keypair P c se pk sk -> se <> [] -> sk <> [].
Proof.
  destruct c; simpl; intros H Hne; try (destruct H as [_ ->]; exact Hne).
  destruct H as [H | [_ [-> _]]]; [|exact Hne].
  apply (sl_ed P L _ _ _ []) in H. destruct H as [_ [_ [H _]]]. intro E. subst sk. discriminate.
Qed.

Lemma secret_of_some pk sk tag : sk <> [] -> secret_of (mkkey pk (Some sk) tag) = Some sk.
Proof. destruct sk; [contradiction | reflexivity]. Qed.

Lemma from_secret_exponent_keypair P (L : sig_laws P) c se pk sk :
  keypair P c se pk sk -> from_secret_exponent P (curve_tag c) se = Ok (mkkey pk (Some sk) (curve_tag c)).
Proof.
  unfold from_secret_exponent. rewrite curve_of_tag_tag.
  destruct c; simpl; intro H.
  - destruct H as [H | [Hl [-> [seed H]]]].
    + pose proof (sl_ed P L _ _ _ [] H) as [_ [Hs _]].
      destruct (Nat.eqb_spec (length se) 64) as [E|E]; [rewrite Hs in E; discriminate|].
      rewrite H. reflexivity.
    + rewrite Hl. simpl. pose proof (sl_ed P L _ _ _ [] H) as [Hpk _]. rewrite Hpk. reflexivity.
  - destruct H as [H ->]. rewrite H. reflexivity.
  - destruct H as [H ->]. rewrite H. reflexivity.
  - destruct H as [H ->]. rewrite H. reflexivity.
Qed.

Lemma sign_ok P (L : sig_laws P) c pk sk m em g raw :
  sk <> [] -> scrub_input m = Ok em -> raw_sign P c sk em = Ok raw -> length raw = siglen c ->
  key_sign P (mkkey pk (Some sk) (curve_tag c)) m g = Ok (str_of (b58enc P (r_bin (sig_row c g) ++ raw))).
Proof.
  intros Hsk Hm Hraw Hlen. unfold key_sign. rewrite Hm. cbn [bind].
  rewrite (secret_of_some pk sk _ Hsk). cbn [ktag mkkey]. rewrite curve_of_tag_tag, Hraw. cbn [bind].
  rewrite <- sig_row_txt.
  rewrite (find_enc P (sig_row c g) raw (sig_row_used c g)) by (rewrite sig_row_paylen; exact Hlen).
  reflexivity.
Qed.

Lemma sign_then_verify P (L : sig_laws P) c se pk sk m em g :
  keypair P c se pk sk -> se <> [] -> scrub_input m = Ok em ->
  exists s,
    key_sign P (mkkey pk (Some sk) (curve_tag c)) m g = Ok s /\
    key_verify P (mkkey pk (Some sk) (curve_tag c)) (PS s) m = Valid /\
    key_verify P (mkkey pk None (curve_tag c)) (PS s) m = Valid.
Proof.
  intros Hkp Hne Hm.
  destruct (raw_sign_verify P L c se pk sk em Hkp) as [raw [Hraw [Hlen Hv]]].
  pose proof (keypair_secret_nonempty P L c se pk sk Hkp Hne) as Hsk.
  assert (Hpk : pk <> []).
  { pose proof (keypair_pk_len P L c se pk sk Hkp) as Hl. intro E. subst pk. destruct c; discriminate. }
  exists (str_of (b58enc P (r_bin (sig_row c g) ++ raw))). split; [|split].
  - apply (sign_ok P L c pk sk m em g raw); assumption.
  - rewrite (verify_wellformed P (sl_b58 P L) _ c c g raw m em); auto.
    assert (E : curve_eqb c c = true) by (destruct c; reflexivity). rewrite E, orb_true_r. exact Hv.
  - rewrite (verify_wellformed P (sl_b58 P L) _ c c g raw m em); auto.
    assert (E : curve_eqb c c = true) by (destruct c; reflexivity). rewrite E, orb_true_r. exact Hv.
Qed.

(* ------------------------------------------------------------------------------------------- *)
(* importing a public key text; CHECK_SIGNATURE                                                *)
(* ------------------------------------------------------------------------------------------- *)

Lemma skipn_firstn_prefix p e n m : starts_with p e = true -> n + m <= length p ->
  firstn m (skipn n e) = firstn m (skipn n p).
Proof.
  intros H Hn. apply starts_with_split in H. rewrite H at 1.
  rewrite skipn_app. replace (n - length p) with 0 by lia. cbn [skipn].
  rewrite firstn_app. rewrite skipn_length. replace (m - (length p - n)) with 0 by lia.
  cbn [firstn]. now rewrite app_nil_r.
Qed.

Lemma pk_row_parse c :
  firstn 2 (r_txt (pk_row c)) = curve_tag c /\
  mem_bytes (curve_tag c) [tx "sp"; tx "p2"; tx "ed"; tx "BL"] = true /\
  existsb (Nat.eqb (r_enclen (pk_row c))) [54; 55; 76; 88; 98] = true /\
  bytes_eqb (firstn 1 (skipn 2 (r_txt (pk_row c)))) (tx "e") = false /\
  firstn 2 (skipn 2 (r_txt (pk_row c))) = tx "pk" /\
  length (r_txt (pk_row c)) = 4.
Proof. destruct c; vm_compute; repeat split; reflexivity. Qed.

Lemma from_encoded_public P (L : b58_laws P) c pk pass : length pk = pklen c ->
  from_encoded_key P (PS (str_of (b58enc P (r_bin (pk_row c) ++ pk)))) pass = Ok (mkkey pk None (curve_tag c)).
Proof.
  intro Hlen. pose proof (pk_row_used c) as Hin.
  assert (Hl : length pk = r_paylen (pk_row c)) by (rewrite pk_row_paylen; exact Hlen).
  destruct (b58_round P L _ pk Hin Hl) as [_ [Hdec [Hel Hst]]].
  set (e := b58enc P (r_bin (pk_row c) ++ pk)) in *.
  assert (Hscr : scrub_input (PS (str_of e)) = Ok e).
  { apply (scrub_b58_text (pk_row c)); auto. apply (b58_ascii P L). }
  destruct (pk_row_parse c) as [T1 [T2 [T3 [T4 [T5 T6]]]]].
  unfold from_encoded_key. rewrite Hscr. cbn [bind].
  rewrite (starts_with_firstn _ e 2 Hst) by lia. rewrite T1, T2. cbn [negb].
  rewrite Hel, T3. cbn [negb].
  rewrite (skipn_firstn_prefix _ e 2 1 Hst) by lia. rewrite T4.
  rewrite (skipn_firstn_prefix _ e 2 2 Hst) by lia. rewrite T5.
  change (mem_bytes (tx "pk") [tx "pk"; tx "sk"]) with true. cbn [negb].
  rewrite Hdec. cbn [bind].
  change (bytes_eqb (tx "pk") (tx "sk")) with false. reflexivity.
Qed.

Lemma public_key_text P c pk sec : length pk = pklen c ->
  public_key P (mkkey pk sec (curve_tag c)) = Ok (str_of (b58enc P (r_bin (pk_row c) ++ pk))).
Proof.
  intro Hlen. unfold public_key. cbn [pub ktag mkkey]. rewrite <- pk_row_txt.
  rewrite (find_enc P (pk_row c) pk (pk_row_used c)) by (rewrite pk_row_paylen; exact Hlen).
  reflexivity.
Qed.

Lemma check_signature_public P (L : b58_laws P) c pk sec pks sg msg : length pk = pklen c ->
  public_key P (mkkey pk sec (curve_tag c)) = Ok pks ->
  check_signature P pks sg msg =
    match key_verify P (mkkey pk None (curve_tag c)) (PS sg) (PB msg) with
    | Valid => Ok true | Invalid => Ok false | Crashed => Reject
    end.
Proof.
  intros Hlen Hpk. rewrite (public_key_text P c pk sec Hlen) in Hpk. injection Hpk as <-.
  unfold check_signature. rewrite (from_encoded_public P L c pk None Hlen). reflexivity.
Qed.

(* ------------------------------------------------------------------------------------------- *)
(* what the native primitives are applied to                                                   *)
(* ------------------------------------------------------------------------------------------- *)

Definition raw_sign_on (P : prims) (c : curve) (sk pl : bytes) : result bytes :=
  match c with
  | Ed => of_option (ed_sign P pl sk)
  | Sp => of_option (sp_sign P sk pl)
  | P2 => match p2_sign P (be_to_N sk) pl with
          | Some (r, s) => match to_bytes_be 32 r, to_bytes_be 32 s with
                           | Some rb, Some sb => Ok (rb ++ sb)
                           | _, _ => Reject
                           end
          | None => Reject
          end
  | BL => of_option (bl_sign P (le_to_N sk) pl)
  end.

Definition raw_verify_on (P : prims) (c : curve) (pk ds pl : bytes) : verdict :=
  match c with
  | Ed => verdict_of (ed_verify P ds pl pk)
  | Sp => match sp_decode P pk with
          | PTrue => match sp_parse P ds with
                     | PTrue => verdict_of (sp_verify P pk ds pl)
                     | PValueError => Invalid
                     | _ => Crashed
                     end
          | PValueError => Invalid
          | _ => Crashed
          end
  | P2 => match p2_decode P pk with
          | PTrue => verdict_of (p2_verify P pk pl (be_to_N (firstn 32 ds)) (be_to_N (skipn 32 ds)))
          | PValueError => Invalid
          | _ => Crashed
          end
  | BL => verdict_of (bl_verify P pk pl ds)
  end.

Lemma digest_discipline P c sk pk ds em :
  raw_sign P c sk em = raw_sign_on P c sk (payload P c em) /\
  raw_verify P c pk ds em = raw_verify_on P c pk ds (payload P c em).
Proof.
  destruct c; split; reflexivity.
Qed.

Lemma sign_depends_on_payload P k c m m' em em' g :
  ktag k = curve_tag c -> scrub_input m = Ok em -> scrub_input m' = Ok em' ->
  payload P c em = payload P c em' -> key_sign P k m g = key_sign P k m' g.
Proof.
  intros Htag Hm Hm' Hp. unfold key_sign. rewrite Hm, Hm'. cbn [bind].
  destruct (secret_of k) as [sk|]; [|reflexivity].
  rewrite Htag, curve_of_tag_tag.
  rewrite (proj1 (digest_discipline P c sk [] [] em)), (proj1 (digest_discipline P c sk [] [] em')), Hp.
  reflexivity.
Qed.

(* ------------------------------------------------------------------------------------------- *)
(* a hex string denotes its bytes                                                              *)
(* ------------------------------------------------------------------------------------------- *)

Lemma hexchar_facts k : k < 16 ->
  is_space (hexchar (N.of_nat k)) = false /\ hexdig (hexchar (N.of_nat k)) = Some (N.of_nat k) /\
  (hexchar (N.of_nat k) =? 120)%N = false.
Proof.
  intro H. do 16 (destruct k as [|k]; [vm_compute; auto|]). lia.
Qed.

Lemma hexchar_facts_N n : (n < 16)%N ->
  is_space (hexchar n) = false /\ hexdig (hexchar n) = Some n /\ (hexchar n =? 120)%N = false.
Proof.
  intro H. rewrite <- (N2Nat.id n). apply hexchar_facts. lia.
Qed.

Lemma rm0x_spec s :
  rm0x s = match s with
           | a :: b :: r => if ((a =? 48) && (b =? 120))%N then r else s
           | _ => s
           end.
Proof.
  destruct s as [|a [|b r]]; try reflexivity.
  - unfold rm0x. destruct a as [|pa]; [reflexivity|].
    repeat (destruct pa as [pa|pa|]; try reflexivity).
  - destruct (N.eqb_spec a 48) as [Ea|Ea]; [destruct (N.eqb_spec b 120) as [Eb|Eb]|]; subst; cbn [andb].
    + reflexivity.
    + unfold rm0x. destruct b as [|pb]; [reflexivity|].
      repeat (destruct pb as [pb|pb|]; try reflexivity). exfalso; apply Eb; reflexivity.
    + unfold rm0x. destruct a as [|pa]; [reflexivity|].
      repeat (destruct pa as [pa|pa|]; try reflexivity). exfalso; apply Ea; reflexivity.
Qed.

Lemma fromhex_hex_of b : fromhex (hex_of b) = Some b.
Proof.
  unfold fromhex. induction b as [|x b IH]; [reflexivity|].
  cbn [hex_of flat_map app]. fold (hex_of b).
  pose proof (to_N_lt_256 x) as Hx.
  assert (Hhi : (Byte.to_N x / 16 < 16)%N) by (apply N.div_lt_upper_bound; lia).
  assert (Hlo : (Byte.to_N x mod 16 < 16)%N) by (apply N.mod_lt; lia).
  destruct (hexchar_facts_N _ Hhi) as [S1 [D1 _]]. destruct (hexchar_facts_N _ Hlo) as [_ [D2 _]].
  cbn [fromhex_aux]. rewrite S1, D1, D2, IH.
  f_equal. f_equal. rewrite <- (b8_to_N x) at 3. f_equal.
  rewrite (N.div_mod (Byte.to_N x) 16) at 3 by lia. lia.
Qed.

Lemma rm0x_hex_of b : rm0x (hex_of b) = hex_of b.
Proof.
  rewrite rm0x_spec. destruct b as [|x b]; [reflexivity|].
  cbn [hex_of flat_map app].
  assert (Hlo : (Byte.to_N x mod 16 < 16)%N) by (apply N.mod_lt; lia).
  destruct (hexchar_facts_N _ Hlo) as [_ [_ E]]. rewrite E, andb_false_r. reflexivity.
Qed.

Lemma scrub_hex b : scrub_input (PS (hex_of b)) = Ok b /\ scrub_input (PS (48 :: 120 :: hex_of b)%N) = Ok b.
Proof.
  split; unfold scrub_input.
  - rewrite rm0x_hex_of, fromhex_hex_of. reflexivity.
  - change (rm0x (48 :: 120 :: hex_of b)%N) with (hex_of b). rewrite fromhex_hex_of. reflexivity.
Qed.

(* ------------------------------------------------------------------------------------------- *)
(* statements of Properties/C07.v                                                              *)
(* ------------------------------------------------------------------------------------------- *)

Lemma c07_sign_then_verify : forall P, sig_laws P -> forall c se pk sk m em g,
  keypair P c se pk sk -> se <> [] -> scrub_input m = Ok em ->
  from_secret_exponent P (curve_tag c) se = Ok (mkkey pk (Some sk) (curve_tag c)) /\
  exists s,
    key_sign P (mkkey pk (Some sk) (curve_tag c)) m g = Ok s /\
    key_verify P (mkkey pk (Some sk) (curve_tag c)) (PS s) m = Valid /\
    key_verify P (mkkey pk None (curve_tag c)) (PS s) m = Valid.
Proof.
  intros P L c se pk sk m em g Hkp Hne Hm. split.
  - exact (from_secret_exponent_keypair P L c se pk sk Hkp).
  - exact (sign_then_verify P L c se pk sk m em g Hkp Hne Hm).
Qed.

Lemma c07_check_signature_accepts : forall P, sig_laws P -> forall c se pk sk em g s pks,
  keypair P c se pk sk -> se <> [] ->
  key_sign P (mkkey pk (Some sk) (curve_tag c)) (PB em) g = Ok s ->
  public_key P (mkkey pk (Some sk) (curve_tag c)) = Ok pks ->
  check_signature P pks s em = Ok true.
Proof.
  intros P L c se pk sk em g s pks Hkp Hne Hs Hpk.
  destruct (sign_then_verify P L c se pk sk (PB em) em g Hkp Hne eq_refl) as [s' [Hs' [_ Hv]]].
  rewrite Hs in Hs'. injection Hs' as <-.
  rewrite (check_signature_public P (sl_b58 P L) c pk (Some sk) pks s em (keypair_pk_len P L c se pk sk Hkp) Hpk).
  rewrite Hv. reflexivity.
Qed.

Lemma c07_signature_form : forall P, sig_laws P -> forall c pk sk m em g raw,
  sk <> [] -> scrub_input m = Ok em -> raw_sign P c sk em = Ok raw -> length raw = siglen c ->
  key_sign P (mkkey pk (Some sk) (curve_tag c)) m g = Ok (str_of (b58enc P (r_bin (sig_row c g) ++ raw))) /\
  r_txt (sig_row c g) = (if g && negb (curve_eqb c BL) then tx "sig" else curve_tag c ++ tx "sig").
Proof.
  intros P L c pk sk m em g raw H1 H2 H3 H4. split.
  - exact (sign_ok P L c pk sk m em g raw H1 H2 H3 H4).
  - destruct c, g; reflexivity.
Qed.
