(* Proofs/MultiNode_proofs.v — lemmas about Client/MultiNode.v *)
From Coq Require Import List Arith Bool Lia.
From PV Require Import Client.MultiNode.
Import ListNotations.

Definition ideal_event (n : nat) (jo : nat * outcome) : event := Sent (fst jo mod n) (snd jo).

Lemma succ_mod (n k : nat) : n <> 0 -> (k mod n + 1) mod n = S k mod n.
Proof.
  intro Hn. rewrite Nat.add_mod_idemp_l by exact Hn. f_equal. lia.
Qed.

(* invariant: when k requests have been processed, _next_i = k mod n *)
Lemma run_from_inv (n : nat) : 0 < n -> forall os s k,
  s = k mod n ->
  run_from n s os = (map (ideal_event n) (combine (seq k (length os)) os), (k + length os) mod n).
Proof.
  intros Hn os. induction os as [|o r IH]; intros s k Hs.
  - cbn. rewrite Nat.add_0_r. now subst.
  - cbn [length seq combine map]. unfold run_from in *. cbn [run_from_with].
    unfold step_with.
    assert (Hlt : s < n) by (subst; apply Nat.mod_upper_bound; lia).
    apply Nat.ltb_lt in Hlt. rewrite Hlt. cbn [always].
    rewrite (IH ((s + 1) mod n) (S k)).
    + unfold ideal_event at 2. cbn [fst snd]. rewrite <- Hs.
      f_equal. f_equal. lia.
    + subst s. apply succ_mod. lia.
Qed.

Lemma run_eq (n : nat) (os : list outcome) : 0 < n ->
  run n os = (map (ideal_event n) (combine (seq 0 (length os)) os), length os mod n).
Proof.
  intro Hn. unfold run. rewrite (run_from_inv n Hn os 0 0).
  - reflexivity.
  - symmetry. apply Nat.mod_0_l. lia.
Qed.

Lemma combine_seq_nth {A} (l : list A) : forall k i x,
  nth_error l i = Some x -> nth_error (combine (seq k (length l)) l) i = Some (k + i, x).
Proof.
  induction l as [|a l IH]; intros k i x H.
  - destruct i; discriminate.
  - destruct i as [|i]; cbn in *.
    + injection H as ->. now rewrite Nat.add_0_r.
    + rewrite (IH (S k) i x H). f_equal. f_equal. lia.
Qed.

Lemma nth_event (n : nat) (os : list outcome) (i : nat) (o : outcome) : 0 < n ->
  nth_error os i = Some o ->
  nth_error (events (run n os)) i = Some (Sent (i mod n) o).
Proof.
  intros Hn H. rewrite run_eq by exact Hn. unfold events. cbn [fst].
  rewrite nth_error_map, (combine_seq_nth os 0 i o H). reflexivity.
Qed.

(* the i-th request goes to node i mod n *)
Lemma ith_target (n : nat) (os : list outcome) (i : nat) : 0 < n -> i < length os ->
  nth_error (targets (run n os)) i = Some (Some (i mod n)).
Proof.
  intros Hn Hi. destruct (nth_error os i) as [o|] eqn:E.
  - unfold targets. rewrite nth_error_map, (nth_event n os i o Hn E). reflexivity.
  - apply nth_error_None in E. lia.
Qed.

Lemma map_combine_snd {A B C} (f : A * B -> C) (g : B -> C) :
  (forall a b, f (a, b) = g b) ->
  forall (l1 : list A) (l2 : list B), length l1 = length l2 -> map f (combine l1 l2) = map g l2.
Proof.
  intros Hfg l1. induction l1 as [|a l1 IH]; intros [|b l2] Hl; try discriminate; cbn.
  - reflexivity.
  - rewrite Hfg. f_equal. apply IH. now injection Hl.
Qed.

Lemma map_combine_fst {A B C} (f : A * B -> C) (g : A -> C) :
  (forall a b, f (a, b) = g a) ->
  forall (l1 : list A) (l2 : list B), length l1 = length l2 -> map f (combine l1 l2) = map g l1.
Proof.
  intros Hfg l1. induction l1 as [|a l1 IH]; intros [|b l2] Hl; try discriminate; cbn.
  - reflexivity.
  - rewrite Hfg. f_equal. apply IH. now injection Hl.
Qed.

(* all targets at once *)
Lemma targets_eq (n : nat) (os : list outcome) : 0 < n ->
  targets (run n os) = map (fun i => Some (i mod n)) (seq 0 (length os)).
Proof.
  intro Hn. rewrite run_eq by exact Hn. unfold targets, events. cbn [fst].
  rewrite map_map. apply map_combine_fst.
  - reflexivity.
  - apply seq_length.
Qed.

(* every call reaches a node, and the caller sees exactly that node's outcome *)
Lemma propagated_eq (n : nat) (os : list outcome) : 0 < n ->
  map propagated (events (run n os)) = map Some os.
Proof.
  intro Hn. rewrite run_eq by exact Hn. unfold events. cbn [fst].
  rewrite map_map. apply map_combine_snd.
  - reflexivity.
  - apply seq_length.
Qed.

Lemma final_eq (n : nat) (os : list outcome) : 0 < n -> final (run n os) = length os mod n.
Proof. intro Hn. now rewrite run_eq. Qed.

(* the state is always a valid index: the assert never fires *)
Lemma never_assert (n : nat) (os : list outcome) : 0 < n -> ~ In AssertFailed (events (run n os)).
Proof.
  intros Hn HIn. rewrite run_eq in HIn by exact Hn. unfold events in HIn. cbn [fst] in HIn.
  apply in_map_iff in HIn. destruct HIn as [[j o] [H _]]. discriminate.
Qed.

(* two successive runs on the same client = one run on the concatenated script *)
Lemma run_from_app (adv : outcome -> bool) (n : nat) : forall os1 os2 s,
  run_from_with adv n s (os1 ++ os2) =
  (fst (run_from_with adv n s os1) ++ fst (run_from_with adv n (snd (run_from_with adv n s os1)) os2),
   snd (run_from_with adv n (snd (run_from_with adv n s os1)) os2)).
Proof.
  induction os1 as [|o r IH]; intros os2 s.
  - cbn. now destruct (run_from_with adv n s os2).
  - cbn [app run_from_with]. destruct (step_with adv n s o) as [s' e].
    rewrite IH. destruct (run_from_with adv n s' r) as [es fin]. cbn [fst snd].
    destruct (run_from_with adv n fin os2) as [es2 fin2]. reflexivity.
Qed.

(* necessity: a client that does not advance after some outcome [o] violates the rotation
   as soon as there are two nodes *)
Lemma must_advance (adv : outcome -> bool) (n : nat) (o : outcome) : 2 <= n -> adv o = false ->
  nth_error (map target (fst (run_from_with adv n 0 [o; o]))) 1 = Some (Some 0) /\ 1 mod n = 1.
Proof.
  intros Hn Hadv. split.
  - cbn [run_from_with]. unfold step_with.
    assert (H0 : (0 <? n) = true) by (apply Nat.ltb_lt; lia).
    rewrite H0, Hadv, H0. reflexivity.
  - apply Nat.mod_small. lia.
Qed.
