(* Proofs/MultiNode_proofs.v — lemmas about Client/MultiNode.v *)
From Coq Require Import List Arith Bool Lia.
From PV Require Import Client.MultiNode.
Import ListNotations.

Definition ideal_event (n : nat) (jo : nat * outcome) : event := Sent (fst jo mod n) (snd jo).

Lemma succ_mod (n k : nat) : n <> 0 -> (k mod n + 1) mod n = S k mod n.
Proof.
  intro Hn. rewrite Nat.add_mod_idemp_l by exact Hn. f_equal. lia.
Qed.

(* invariant: when k requests have been processed, _next_i = k mod n *)
Lemma run_from_inv (n : nat) : 0 < n -> forall os s k,
  s = k mod n ->
  run_from n s os = (map (ideal_event n) (combine (seq k (length os)) os), (k + length os) mod n).
Proof.
  intros Hn os. induction os as [|o r IH]; intros s k Hs.
  - cbn. rewrite Nat.add_0_r. now subst.
  - cbn [length seq combine map]. unfold run_from in *. cbn [run_from_with].
    unfold step_with.
    assert (Hlt : s < n) by (subst; apply Nat.mod_upper_bound; lia).
    apply Nat.ltb_lt in Hlt. rewrite Hlt. cbn [always].
    rewrite (IH ((s + 1) mod n) (S k)).
    + unfold ideal_event at 2. cbn [fst snd]. rewrite <- Hs.
      f_equal. f_equal. lia.
    + subst s. apply succ_mod. lia.
Qed.

Lemma run_eq (n : nat) (os : list outcome) : 0 < n ->
  run n os = (map (ideal_event n) (combine (seq 0 (length os)) os), length os mod n).
Proof.
  intro Hn. unfold run. rewrite (run_from_inv n Hn os 0 0).
  - reflexivity.
  - symmetry. apply Nat.mod_0_l. lia.
Qed.

Lemma combine_seq_nth {A} (l : list A) : forall k i x,
  nth_error l i = Some x -> nth_error (combine (seq k (length l)) l) i = Some (k + i, x).
Proof.
  induction l as [|a l IH]; intros k i x H.
  - destruct i; discriminate.
  - destruct i as [|i]; cbn in *.
    + injection H as ->. now rewrite Nat.add_0_r.
    + rewrite (IH (S k) i x H). f_equal. f_equal. lia.
Qed.

Lemma nth_event (n : nat) (os : list outcome) (i : nat) (o : outcome) : 0 < n ->
  nth_error os i = Some o ->
  nth_error (events (run n os)) i = Some (Sent (i mod n) o).
Proof.
  intros Hn H. rewrite run_eq by exact Hn. unfold events. cbn [fst].
  rewrite nth_error_map, (combine_seq_nth os 0 i o H). reflexivity.
Qed.

(* the i-th request goes to node i mod n *)
Lemma ith_target (n : nat) (os : list outcome) (i : nat) : 0 < n -> i < length os ->
  nth_error (targets (run n os)) i = Some (Some (i mod n)).
Proof.
  intros Hn Hi. destruct (nth_error os i) as [o|] eqn:E.
  - unfold targets. rewrite nth_error_map, (nth_event n os i o Hn E). reflexivity.
  - apply nth_error_None in E. lia.
Qed.

Lemma map_combine_snd {A B C} (f : A * B -> C) (g : B -> C) :
  (forall a b, f (a, b) = g b) ->
  forall (l1 : list A) (l2 : list B), length l1 = length l2 -> map f (combine l1 l2) = map g l2.
Proof.
  intros Hfg l1. induction l1 as [|a l1 IH]; intros [|b l2] Hl; try discriminate; cbn.
  - reflexivity.
  - rewrite Hfg. f_equal. apply IH. now injection Hl.
Qed.

Lemma map_combine_fst {A B C} (f : A * B -> C) (g : A -> C) :
  (forall a b, f (a, b) = g a) ->
  forall (l1 : list A) (l2 : list B), length l1 = length l2 -> map f (combine l1 l2) = map g l1.
Proof.
  intros Hfg l1. induction l1 as [|a l1 IH]; intros [|b l2] Hl; try discriminate; cbn.
  - reflexivity.
  - rewrite Hfg. f_equal. apply IH. now injection Hl.
Qed.

(* all targets at once *)
Lemma targets_eq (n : nat) (os : list outcome) : 0 < n ->
  targets (run n os) = map (fun i => Some (i mod n)) (seq 0 (length os)).
Proof.
  intro Hn. rewrite run_eq by exact Hn. unfold targets, events. cbn [fst].
  rewrite map_map. apply map_combine_fst.
  - reflexivity.
  - apply seq_length.
Qed.

(* every call reaches a node, and the caller sees exactly that node's outcome *)
Lemma propagated_eq (n : nat) (os : list outcome) : 0 < n ->
  map propagated (events (run n os)) = map Some os.
Proof.
  intro Hn. rewrite run_eq by exact Hn. unfold events. cbn [fst].
  rewrite map_map. apply map_combine_snd.
  - reflexivity.
  - apply seq_length.
Qed.

Lemma final_eq (n : nat) (os : list outcome) : 0 < n -> final (run n os) = length os mod n.
Proof. intro Hn. now rewrite run_eq. Qed.

(* the state is always a valid index: the assert never fires *)
Lemma never_assert (n : nat) (os : list outcome) : 0 < n -> ~ In AssertFailed (events (run n os)).
Proof.
  intros Hn HIn. rewrite run_eq in HIn by exact Hn. unfold events in HIn. cbn [fst] in HIn.
  apply in_map_iff in HIn. destruct HIn as [[j o] [H _]]. discriminate.
Qed.

(* two successive runs on the same client = one run on the concatenated script *)
Lemma run_from_app (adv : outcome -> bool) (n : nat) : forall os1 os2 s,
  run_from_with adv n s (os1 ++ os2) =
  (fst (run_from_with adv n s os1) ++ fst (run_from_with adv n (snd (run_from_with adv n s os1)) os2),
   snd (run_from_with adv n (snd (run_from_with adv n s os1)) os2)).
Proof.
  induction os1 as [|o r IH]; intros os2 s.
  - cbn. now destruct (run_from_with adv n s os2).
  - cbn [app run_from_with]. destruct (step_with adv n s o) as [s' e].
    rewrite IH. destruct (run_from_with adv n s' r) as [es fin]. cbn [fst snd].
    destruct (run_from_with adv n fin os2) as [es2 fin2]. reflexivity.
Qed.

(* necessity: a client that does not advance after some outcome [o] violates the rotation
   as soon as there are two nodes *)
Lemma must_advance (adv : outcome -> bool) (n : nat) (o : outcome) : 2 <= n -> adv o = false ->
  nth_error (map target (fst (run_from_with adv n 0 [o; o]))) 1 = Some (Some 0) /\ 1 mod n = 1.
Proof.
  intros Hn Hadv. split.
  - cbn [run_from_with]. unfold step_with.
    assert (H0 : (0 <? n) = true) by (apply Nat.ltb_lt; lia).
    rewrite H0, Hadv, H0. reflexivity.
  - apply Nat.mod_small. lia.
Qed.

(* ---- every entry point ---- *)
Definition erase (e : wire_event) : event :=
  match e with Wire i _ o => Sent i o | WAssert => AssertFailed end.

Lemma erase_on_wire c e : erase (on_wire c e) = e.
Proof. destruct e; reflexivity. Qed.

Lemma run_calls_from_erase (n : nat) : forall cs s,
  map erase (fst (run_calls_from n s cs)) = fst (run_from n s (map snd cs)) /\
  snd (run_calls_from n s cs) = snd (run_from n s (map snd cs)).
Proof.
  induction cs as [|[c o] r IH]; intros s.
  - split; reflexivity.
  - cbn [run_calls_from map snd]. unfold run_from in *. cbn [run_from_with].
    fold (step n s o). destruct (step n s o) as [s' e].
    specialize (IH s'). destruct (run_calls_from n s' r) as [es fin].
    destruct (run_from_with always n s' (map snd r)) as [es' fin']. cbn [fst snd] in *.
    destruct IH as [IH1 IH2]. split; [|exact IH2].
    cbn [map]. now rewrite erase_on_wire, IH1.
Qed.

Lemma wire_target_erase e : wire_target e = target (erase e).
Proof. destruct e; reflexivity. Qed.

Lemma run_calls_targets (n : nat) (cs : list (call * outcome)) :
  map wire_target (fst (run_calls n cs)) = targets (run n (map snd cs)).
Proof.
  unfold run_calls, targets, events, run.
  destruct (run_calls_from_erase n cs 0) as [H _]. rewrite <- H, map_map.
  apply map_ext. apply wire_target_erase.
Qed.

(* request i of a client driven through any mix of entry points goes to node i mod n *)
Lemma ith_call_target (n : nat) (cs : list (call * outcome)) (i : nat) : 0 < n -> i < length cs ->
  nth_error (map wire_target (fst (run_calls n cs))) i = Some (Some (i mod n)).
Proof.
  intros Hn Hi. rewrite run_calls_targets. apply ith_target; [exact Hn | now rewrite map_length].
Qed.

(* ... and arrives there with the HTTP method of the entry point used *)
Lemma run_calls_methods (n : nat) : 0 < n -> forall cs s, s < n ->
  map wire_method (fst (run_calls_from n s cs)) = map (fun co => Some (call_method (fst co))) cs.
Proof.
  intros Hn. induction cs as [|[c o] r IH]; intros s Hs; [reflexivity|].
  cbn [run_calls_from]. unfold step, step_with. apply Nat.ltb_lt in Hs. rewrite Hs. cbn [always].
  specialize (IH ((s + 1) mod n) (Nat.mod_upper_bound _ _ (Nat.neq_sym _ _ (Nat.lt_neq _ _ Hn)))).
  destruct (run_calls_from n ((s + 1) mod n) r) as [es fin]. cbn [fst map on_wire wire_method] in *.
  now rewrite IH.
Qed.

Lemma calls_methods (n : nat) (cs : list (call * outcome)) : 0 < n ->
  map wire_method (fst (run_calls n cs)) = map (fun co => Some (call_method (fst co))) cs.
Proof. intro Hn. apply run_calls_methods; assumption. Qed.

Lemma calls_final (n : nat) (cs : list (call * outcome)) : 0 < n -> snd (run_calls n cs) = length cs mod n.
Proof.
  intro Hn. unfold run_calls. destruct (run_calls_from_erase n cs 0) as [_ H]. rewrite H.
  change (snd (run_from n 0 (map snd cs))) with (final (run n (map snd cs))).
  rewrite final_eq by exact Hn. now rewrite map_length.
Qed.

(* elapsed time is not an input *)
Lemma timed_independent (n : nat) (tcs tcs' : list (BinNums.Z * (call * outcome))) :
  map snd tcs = map snd tcs' -> run_timed n tcs = run_timed n tcs'.
Proof. intro H. unfold run_timed. now rewrite H. Qed.
