(* Proofs/Repl_proofs.v — lemmas about Michelson/Repl.v for property C22.
   Invariant: every big_map on the stack is attached to the interpreter's current context ([swf]).
   Under it a session behaves like its canonical representative ([canon]: one context, identity 0),
   so sessions with equal [view]s cannot be told apart by any later cell; a failing cell in mode
   [Rebind] restores the view and the invariant. *)
From Coq Require Import List ZArith Bool Arith Lia String.
From PV Require Import Base.Bytes Codec.Micheline Michelson.Repl.
Import ListNotations.

(* ---------------------------------------------------------------------------------------- *)
(* the invariant                                                                            *)
(* ---------------------------------------------------------------------------------------- *)

Fixpoint vwf (cur : nat) (v : value) : Prop :=
  match v with
  | GPair a b => vwf cur a /\ vwf cur b
  | GSome a => vwf cur a
  | GBig _ _ h => h_ctx h = cur
  | _ => True
  end.

Fixpoint lwf (cur : nat) (l : list value) : Prop :=
  match l with
  | [] => True
  | a :: r => vwf cur a /\ lwf cur r
  end.

Definition swf (s : session) : Prop := lwf (s_cur s) (s_stack s).

Definition cz : value -> value := gmap (set_ctx 0).

Definition canon (s : session) : session := mkS (map cz (s_stack s)) 0 (s_ctx s) [] 1.

Definition frame (s s' : session) : Prop := s_cur s' = s_cur s /\ s_next s' = s_next s.

Lemma frame_refl s : frame s s.
Proof. split; reflexivity. Qed.

Lemma frame_trans a b c : frame a b -> frame b c -> frame a c.
Proof. intros [H1 H2] [H3 H4]. split; congruence. Qed.

(* ---------------------------------------------------------------------------------------- *)
(* gmap facts                                                                               *)
(* ---------------------------------------------------------------------------------------- *)

Lemma proj_gmap {A B} (f : A -> B) (v : gval A) : proj (gmap f v) = proj v.
Proof.
  induction v as [| | | | |a IHa b IHb| |a IHa| |k t h|bb|la lr lbody|lt ll]; simpl; try reflexivity.
  - rewrite IHa, IHb. reflexivity.
  - rewrite IHa. reflexivity.
Qed.

Lemma type_of_gmap {A B} (f : A -> B) (v : gval A) : type_of (gmap f v) = type_of v.
Proof.
  induction v as [| | | | |a IHa b IHb| |a IHa| |k t h|bb|la lr lbody|lt ll]; simpl; try reflexivity.
  - rewrite IHa, IHb. reflexivity.
  - rewrite IHa. reflexivity.
Qed.

Lemma gmap_gmap {A B C} (f : A -> B) (g : B -> C) (v : gval A) :
  gmap g (gmap f v) = gmap (fun x => g (f x)) v.
Proof.
  induction v as [| | | | |a IHa b IHb| |a IHa| |k t h|bb|la lr lbody|lt ll]; simpl; try reflexivity.
  - rewrite IHa, IHb. reflexivity.
  - rewrite IHa. reflexivity.
Qed.

Lemma gmap_ext {A B} (f g : A -> B) (v : gval A) :
  (forall x, In x (handles_of v) -> f x = g x) -> gmap f v = gmap g v.
Proof.
  induction v as [| | | | |a IHa b IHb| |a IHa| |k t h|bb|la lr lbody|lt ll]; simpl; intro H; try reflexivity.
  - rewrite IHa, IHb; auto; intros x Hx; apply H; apply in_or_app; auto.
  - rewrite IHa; auto.
  - rewrite H; auto.
Qed.

Lemma gmap_inj_sval {B} (f : handle -> B) (v : sval) : gmap f (inj v) = inj v.
Proof.
  unfold inj.
  induction v as [| | | | |a IHa b IHb| |a IHa| |k t h|bb|la lr lbody|lt ll]; simpl; try reflexivity.
  - rewrite IHa, IHb. reflexivity.
  - rewrite IHa. reflexivity.
  - destruct h.
Qed.

Lemma vwf_inj cur (v : sval) : vwf cur (inj v).
Proof.
  unfold inj.
  induction v as [| | | | |a IHa b IHb| |a IHa| |k t h|bb|la lr lbody|lt ll]; simpl; auto.
  destruct h.
Qed.

Lemma cz_cz v : cz (cz v) = cz v.
Proof. unfold cz. rewrite gmap_gmap. reflexivity. Qed.

Lemma vwf_cz v : vwf 0 (cz v).
Proof.
  induction v as [| | | | |a IHa b IHb| |a IHa| |k t h|bb|la lr lbody|lt ll]; simpl; auto.
Qed.

Lemma lwf_cz l : lwf 0 (map cz l).
Proof. induction l as [|a r IH]; simpl; auto using vwf_cz. Qed.

Lemma cz_rebind old new v : vwf old v -> cz (gmap (rebind old new) v) = cz v /\ vwf new (gmap (rebind old new) v).
Proof.
  induction v as [| | | | |a IHa b IHb| |a IHa| |k t h|bb|la lr lbody|lt ll]; simpl; intro H; auto.
  - destruct H as [Ha Hb]. destruct (IHa Ha) as [E1 W1]. destruct (IHb Hb) as [E2 W2].
    unfold cz in *. simpl. rewrite E1, E2. auto.
  - destruct (IHa H) as [E1 W1]. unfold cz in *. simpl. rewrite E1. auto.
  - unfold rebind. rewrite H, Nat.eqb_refl. simpl. split; reflexivity.
Qed.

Lemma map_cz_rebind old new l :
  lwf old l -> map cz (map (gmap (rebind old new)) l) = map cz l /\ lwf new (map (gmap (rebind old new)) l).
Proof.
  induction l as [|a r IH]; simpl; intro H; auto.
  destruct H as [Ha Hr]. destruct (cz_rebind old new a Ha) as [E W]. destruct (IH Hr) as [E' W'].
  rewrite E, E'. auto.
Qed.

(* ---------------------------------------------------------------------------------------- *)
(* big_map access through a well-attached handle                                            *)
(* ---------------------------------------------------------------------------------------- *)

Lemma lookup_cur s : lookup s (s_cur s) = Some (s_ctx s).
Proof. unfold lookup. rewrite Nat.eqb_refl. reflexivity. Qed.

Lemma lookup_canon s : lookup (canon s) 0 = Some (s_ctx s).
Proof. reflexivity. Qed.

Lemma store_cur s c : store s (s_cur s) c = with_ctx s c.
Proof. unfold store. rewrite Nat.eqb_refl. reflexivity. Qed.

Lemma bm_get_canon s h k : h_ctx h = s_cur s -> bm_get (canon s) (set_ctx 0 h) k = bm_get s h k.
Proof.
  intro H. unfold bm_get, set_ctx. cbn [h_items h_removed h_ctx h_ptr].
  rewrite H, !lookup_cur. reflexivity.
Qed.

Lemma bm_update_canon s h k o :
  h_ctx h = s_cur s ->
  bm_update (canon s) (set_ctx 0 h) k o =
  match bm_update s h k o with Some (p, h') => Some (p, set_ctx 0 h') | None => None end.
Proof.
  intro H. unfold bm_update. rewrite (bm_get_canon s h k H).
  destruct (bm_get s h k) as [prev|]; [|reflexivity].
  unfold set_ctx. cbn [h_items h_removed h_ctx h_ptr].
  destruct prev as [x|], o as [y|]; reflexivity.
Qed.

Lemma bm_update_ctx s h k o p h' : bm_update s h k o = Some (p, h') -> h_ctx h' = h_ctx h.
Proof.
  unfold bm_update. destruct (bm_get s h k) as [prev|]; [|discriminate].
  destruct prev as [x|], o as [y|]; intro E; injection E as _ <-; reflexivity.
Qed.

Lemma opt_arg_cz v :
  opt_arg (cz v) = match opt_arg v with Some (Some a) => Some (Some (cz a)) | Some None => Some None | None => None end.
Proof. destruct v; reflexivity. Qed.

Lemma proj_opt_cz o : proj_opt (option_map cz o) = proj_opt o.
Proof. destruct o as [a|]; simpl; [unfold cz; rewrite proj_gmap|]; reflexivity. Qed.

Lemma get_args_cz key k : get_args (cz key) k = get_args key k.
Proof. unfold get_args, cz. rewrite proj_gmap, type_of_gmap. reflexivity. Qed.

Lemma upd_args_cz key val k : upd_args (cz key) (cz val) k = upd_args key val k.
Proof.
  unfold upd_args. rewrite opt_arg_cz, get_args_cz.
  destruct (opt_arg val) as [[a|]|]; try reflexivity.
  change (Some (cz a)) with (option_map cz (Some a)). rewrite proj_opt_cz. reflexivity.
Qed.

Lemma add_vals_cz a b :
  add_vals (cz a) (cz b) = option_map cz (add_vals a b) /\
  (forall c cur, add_vals a b = Some c -> vwf cur c).
Proof.
  destruct a, b; simpl; try (split; [reflexivity | intros; discriminate]);
    try (split; [reflexivity | intros c cur E; injection E as <-; exact I]).
  destruct (Z.ltb (z + z0) MUTEZ_LIMIT); simpl; split; try reflexivity; intros c cur E; try discriminate.
  injection E as <-. exact I.
Qed.

Lemma as_option_val_cz t o : cz (as_option_val t o) = as_option_val t o.
Proof. destruct o as [x|]; simpl; [unfold cz; simpl; rewrite gmap_inj_sval|]; reflexivity. Qed.

Lemma vwf_as_option_val cur t o : vwf cur (as_option_val t o).
Proof. destruct o as [x|]; simpl; auto using vwf_inj. Qed.

(* ---------------------------------------------------------------------------------------- *)
(* Michelson instructions commute with [canon] and keep the invariant                       *)
(* ---------------------------------------------------------------------------------------- *)

Lemma lit_of_cz v : lit_of (cz v) = lit_of v.
Proof.
  induction v as [|z|z|str|z|a IHa b IHb|t0|a IHa|t0|k t h|bb|la lr lbody|lt ll]; simpl; try reflexivity.
  - fold cz. rewrite IHa, IHb. reflexivity.
  - fold cz. rewrite IHa. reflexivity.
Qed.

Lemma proj_atom_cz v : proj_atom (cz v) = proj_atom v.
Proof. destruct v; reflexivity. Qed.

Lemma cz_inj_atom x : cz (inj_atom x) = inj_atom x.
Proof. destruct x; reflexivity. Qed.

Lemma vwf_inj_atom cur x : vwf cur (inj_atom x).
Proof. destruct x; exact I. Qed.

Lemma cz_mklist t l : cz (mklist t l) = mklist t l.
Proof. destruct l; reflexivity. Qed.

Lemma vwf_mklist cur t l : vwf cur (mklist t l).
Proof. destruct l; exact I. Qed.

Definition ostep (o : option session) : option session := option_map canon o.

Arguments inj {H} v : simpl never.

Lemma mstep_canon i s :
  swf s ->
  mstep i (canon s) = ostep (mstep i s) /\
  (forall s', mstep i s = Some s' -> swf s' /\ frame s s').
Proof.
  destruct s as [st cur ctx stale nxt]. unfold swf, frame, ostep. simpl s_stack. simpl s_cur. simpl s_next.
  intro W.
  destruct i.
  - (* PUSH *)
    simpl. destruct (pushable t); [|split; [reflexivity|intros; discriminate]].
    destruct (parse_s t lit) as [v|]; [|split; [reflexivity|intros; discriminate]].
    unfold canon, with_stack. simpl. unfold cz at 2. rewrite gmap_inj_sval.
    split; [reflexivity|]. intros s' E. injection E as <-. simpl. auto using vwf_inj.
  - (* DROP *)
    destruct st as [|a r]; simpl; [split; [reflexivity|intros; discriminate]|].
    split; [reflexivity|]. intros s' E. injection E as <-. simpl in *. tauto.
  - (* DUP *)
    destruct st as [|a r]; simpl; [split; [reflexivity|intros; discriminate]|].
    split; [reflexivity|]. intros s' E. injection E as <-. simpl in *. tauto.
  - (* SWAP *)
    destruct st as [|a [|b r]]; simpl; try (split; [reflexivity|intros; discriminate]).
    split; [reflexivity|]. intros s' E. injection E as <-. simpl in *. tauto.
  - (* PAIR *)
    destruct st as [|a [|b r]]; simpl; try (split; [reflexivity|intros; discriminate]).
    split; [reflexivity|]. intros s' E. injection E as <-. simpl in *. tauto.
  - (* UNPAIR *)
    destruct st as [|a r]; simpl; [split; [reflexivity|intros; discriminate]|].
    destruct a; simpl; try (split; [reflexivity|intros; discriminate]).
    split; [reflexivity|]. intros s' E. injection E as <-. simpl in *. tauto.
  - (* CAR *)
    destruct st as [|a r]; simpl; [split; [reflexivity|intros; discriminate]|].
    destruct a; simpl; try (split; [reflexivity|intros; discriminate]).
    split; [reflexivity|]. intros s' E. injection E as <-. simpl in *. tauto.
  - (* CDR *)
    destruct st as [|a r]; simpl; [split; [reflexivity|intros; discriminate]|].
    destruct a; simpl; try (split; [reflexivity|intros; discriminate]).
    split; [reflexivity|]. intros s' E. injection E as <-. simpl in *. tauto.
  - (* SOME *)
    destruct st as [|a r]; simpl; [split; [reflexivity|intros; discriminate]|].
    split; [reflexivity|]. intros s' E. injection E as <-. simpl in *. tauto.
  - (* NONE *)
    simpl. split; [reflexivity|]. intros s' E. injection E as <-. simpl in *. tauto.
  - (* NIL *)
    simpl. split; [reflexivity|]. intros s' E. injection E as <-. simpl in *. tauto.
  - (* UNIT *)
    simpl. split; [reflexivity|]. intros s' E. injection E as <-. simpl in *. tauto.
  - (* EMPTY_BIG_MAP *)
    simpl. destruct (comparable k); [|split; [reflexivity|intros; discriminate]].
    simpl. split; [reflexivity|]. intros s' E. injection E as <-. simpl in *. tauto.
  - (* UPDATE *)
    destruct st as [|key [|val [|src r]]]; simpl; try (split; [reflexivity|intros; discriminate]).
    destruct src; simpl; try (split; [reflexivity|intros; discriminate]).
    simpl in W. destruct W as (Wk & Wv & Wh & Wr).
    fold cz. rewrite upd_args_cz.
    destruct (upd_args key val k) as [[key' o']|]; [|split; [reflexivity|intros; discriminate]].
    change (mkS (cz key :: cz val :: GBig k v (set_ctx 0 h) :: map cz r) 0 ctx [] 1)
      with (canon (mkS (key :: val :: GBig k v h :: r) cur ctx stale nxt)).
    rewrite (bm_update_canon (mkS (key :: val :: (GBig k v h : value) :: r) cur ctx stale nxt) h key' o' Wh).
    destruct (bm_update _ h key' o') as [[p h']|] eqn:Eu; [|split; [reflexivity|intros; discriminate]].
    split; [reflexivity|]. intros s' E. injection E as <-. simpl.
    apply bm_update_ctx in Eu. rewrite Eu. tauto.
  - (* GET *)
    destruct st as [|key [|src r]]; simpl; try (split; [reflexivity|intros; discriminate]).
    destruct src; simpl; try (split; [reflexivity|intros; discriminate]).
    simpl in W. destruct W as (Wk & Wh & Wr).
    fold cz. rewrite get_args_cz.
    destruct (get_args key k) as [key'|]; [|split; [reflexivity|intros; discriminate]].
    change (mkS (cz key :: GBig k v (set_ctx 0 h) :: map cz r) 0 ctx [] 1)
      with (canon (mkS (key :: GBig k v h :: r) cur ctx stale nxt)).
    rewrite (bm_get_canon (mkS (key :: (GBig k v h : value) :: r) cur ctx stale nxt) h key' Wh).
    destruct (bm_get _ h key') as [o|]; [|split; [reflexivity|intros; discriminate]].
    unfold canon, with_stack. simpl. fold cz. rewrite as_option_val_cz.
    split; [reflexivity|]. intros s' E. injection E as <-. simpl. auto using vwf_as_option_val.
  - (* GET_AND_UPDATE *)
    destruct st as [|key [|val [|src r]]]; simpl; try (split; [reflexivity|intros; discriminate]).
    destruct src; simpl; try (split; [reflexivity|intros; discriminate]).
    simpl in W. destruct W as (Wk & Wv & Wh & Wr).
    fold cz. rewrite upd_args_cz.
    destruct (upd_args key val k) as [[key' o']|]; [|split; [reflexivity|intros; discriminate]].
    change (mkS (cz key :: cz val :: GBig k v (set_ctx 0 h) :: map cz r) 0 ctx [] 1)
      with (canon (mkS (key :: val :: GBig k v h :: r) cur ctx stale nxt)).
    rewrite (bm_update_canon (mkS (key :: val :: (GBig k v h : value) :: r) cur ctx stale nxt) h key' o' Wh).
    destruct (bm_update _ h key' o') as [[p h']|] eqn:Eu; [|split; [reflexivity|intros; discriminate]].
    unfold canon, with_stack. simpl. fold cz. rewrite as_option_val_cz.
    split; [reflexivity|]. intros s' E. injection E as <-. simpl.
    apply bm_update_ctx in Eu. rewrite Eu. auto using vwf_as_option_val.
  - (* ADD *)
    destruct st as [|a [|b r]]; simpl; try (split; [reflexivity|intros; discriminate]).
    fold cz. destruct (add_vals_cz a b) as [E1 E2]. rewrite E1.
    destruct (add_vals a b) as [c|]; simpl; [|split; [reflexivity|intros; discriminate]].
    split; [reflexivity|]. intros s' E. injection E as <-. simpl in *.
    destruct W as (_ & _ & Wr). auto.
  - (* FAILWITH *)
    simpl. split; [reflexivity|intros; discriminate].
  - (* DIP: not a flat instruction *)
    simpl. split; [reflexivity|intros; discriminate].
  - (* IF_NONE *)
    simpl. split; [reflexivity|intros; discriminate].
  - (* DIP n *)
    simpl. split; [reflexivity|intros; discriminate].
  - (* IF *)
    simpl. split; [reflexivity|intros; discriminate].
  - (* LOOP *)
    simpl. split; [reflexivity|intros; discriminate].
  - (* LAMBDA *)
    simpl. split; [reflexivity|]. intros s' E. injection E as <-. simpl in *. tauto.
  - (* EXEC *)
    simpl. split; [reflexivity|intros; discriminate].
  - (* PATCH *)
    simpl. split; [reflexivity|]. intros s' E. injection E as <-. simpl in *. tauto.
  - (* { .. } *)
    simpl. split; [reflexivity|intros; discriminate].
  - (* APPLY *)
    destruct st as [|cap [|l rest]]; simpl; try (split; [reflexivity|intros; discriminate]).
    destruct l; simpl; try (split; [reflexivity|intros; discriminate]).
    destruct a; simpl; try (split; [reflexivity|intros; discriminate]).
    fold cz. change (type_of (cz cap)) with (type_of (gmap (set_ctx 0) cap)). rewrite type_of_gmap, lit_of_cz.
    destruct (ty_eqb (type_of cap) a1); [|split; [reflexivity|intros; discriminate]].
    split; [reflexivity|]. intros s' E. injection E as <-. simpl in *. tauto.
  - (* CONS *)
    destruct st as [|x [|l rest]]; simpl; try (split; [reflexivity|intros; discriminate]).
    fold cz. destruct l; simpl; try (split; [reflexivity|intros; discriminate]);
      rewrite proj_atom_cz; (destruct (proj_atom x) as [a|]; [|split; [reflexivity|intros; discriminate]]);
      change (type_of (cz x)) with (type_of (gmap (set_ctx 0) x)); rewrite type_of_gmap;
      (destruct (ty_eqb (type_of x) t); [|split; [reflexivity|intros; discriminate]]);
      (split; [reflexivity|]); intros s' E; injection E as <-; simpl in *; tauto.
  - (* ITER *)
    simpl. split; [reflexivity|intros; discriminate].
  - (* IF_CONS *)
    simpl. split; [reflexivity|intros; discriminate].
  - (* MAP *)
    simpl. split; [reflexivity|intros; discriminate].
Qed.

(* outcomes related by [canon]: both finish (canonical images equal, same outputs) or both fail,
   for the same reason (an ordinary failure, or the model's fuel ran out) *)
Definition orel {A} (a b : outcome (session * A)) : Prop :=
  match a, b with
  | Done (s', o), Done (c', o') => c' = canon s' /\ o' = o
  | Failed x _, Failed y _ => x = y
  | _, _ => False
  end.

Definition mrel (a b : outcome session) : Prop :=
  match a, b with
  | Done s', Done c' => c' = canon s'
  | Failed x _, Failed y _ => x = y
  | _, _ => False
  end.

(* what is proved of an executor [ex] at an instruction / at an instruction list *)
Definition Pe (ex : minstr -> session -> outcome session) (i : minstr) : Prop := forall s,
  swf s ->
  mrel (ex i s) (ex i (canon s)) /\
  (forall s', ex i s = Done s' -> swf s' /\ frame s s').

Definition Pl (ex : minstr -> session -> outcome session) (l : list minstr) : Prop := forall s,
  swf s ->
  mrel (runl ex l s) (runl ex l (canon s)) /\
  (forall s', runl ex l s = Done s' -> swf s' /\ frame s s').

Lemma runl_forall ex l : Forall (Pe ex) l -> Pl ex l.
Proof.
  induction 1 as [|i r Hi Hr IH]; intros s W; simpl.
  - split; [reflexivity|]. intros s' E. injection E as <-. auto using frame_refl.
  - destruct (Hi s W) as [R1 R2].
    destruct (ex i s) as [s1|b sf], (ex i (canon s)) as [c1|b' cf]; simpl in R1; try contradiction.
    + subst c1. destruct (R2 s1 eq_refl) as [W1 F1]. destruct (IH s1 W1) as [R3 R4].
      split; [exact R3|]. intros s' E. destruct (R4 s' E) as [W' F']. eauto using frame_trans.
    + split; [exact R1|]. intros; discriminate.
Qed.

(* induction on instructions with access to the hypothesis for the nested bodies *)
Definition flat (i : minstr) : Prop :=
  match i with
  | MDip _ | MIfNone _ _ | MDipN _ _ | MIf _ _ | MLoop _ | MExec | MSeq _ | MIter _ | MIfCons _ _ | MMap _ => False
  | _ => True
  end.

Section MinstrInd.
  Variable P : minstr -> Prop.
  Hypothesis Hflat : forall i, flat i -> P i.
  Hypothesis HDip : forall b, Forall P b -> P (MDip b).
  Hypothesis HIfNone : forall bt bf, Forall P bt -> Forall P bf -> P (MIfNone bt bf).
  Hypothesis HDipN : forall n b, Forall P b -> P (MDipN n b).
  Hypothesis HIf : forall bt bf, Forall P bt -> Forall P bf -> P (MIf bt bf).
  Hypothesis HLoop : forall b, Forall P b -> P (MLoop b).
  Hypothesis HExec : P MExec.
  Hypothesis HSeq : forall b, Forall P b -> P (MSeq b).
  Hypothesis HIter : forall b, Forall P b -> P (MIter b).
  Hypothesis HIfCons : forall bt bf, Forall P bt -> Forall P bf -> P (MIfCons bt bf).
  Hypothesis HMap : forall b, Forall P b -> P (MMap b).

  Fixpoint minstr_ind' (i : minstr) : P i :=
    let fix go (l : list minstr) : Forall P l :=
        match l with
        | [] => Forall_nil P
        | x :: r => Forall_cons x (minstr_ind' x) (go r)
        end in
    match i with
    | MDip b => HDip b (go b)
    | MIfNone bt bf => HIfNone bt bf (go bt) (go bf)
    | MDipN n b => HDipN n b (go b)
    | MIf bt bf => HIf bt bf (go bt) (go bf)
    | MLoop b => HLoop b (go b)
    | MExec => HExec
    | MSeq b => HSeq b (go b)
    | MApply => Hflat MApply I
    | MCons => Hflat MCons I
    | MIter b => HIter b (go b)
    | MIfCons bt bf => HIfCons bt bf (go bt) (go bf)
    | MMap b => HMap b (go b)
    | MPush t l => Hflat (MPush t l) I
    | MDrop => Hflat MDrop I | MDup => Hflat MDup I | MSwap => Hflat MSwap I | MPair => Hflat MPair I
    | MUnpair => Hflat MUnpair I | MCar => Hflat MCar I | MCdr => Hflat MCdr I | MSome => Hflat MSome I
    | MNone t => Hflat (MNone t) I | MNil t => Hflat (MNil t) I | MUnit => Hflat MUnit I
    | MEmptyBigMap k v => Hflat (MEmptyBigMap k v) I | MUpdate => Hflat MUpdate I | MGet => Hflat MGet I
    | MGetAndUpdate => Hflat MGetAndUpdate I | MAdd => Hflat MAdd I | MFailwith => Hflat MFailwith I
    | MLambda a r b => Hflat (MLambda a r b) I
    | MPatch f v => Hflat (MPatch f v) I
    end.
End MinstrInd.

(* unfolding of [mexec (S f)] *)
Lemma mexec_flat f i s :
  flat i -> mexec (S f) i s = match mstep i s with Some s' => Done s' | None => Failed false s end.
Proof. destruct i; simpl; intro F; try contradiction; reflexivity. Qed.

Lemma mexec_dip f body s :
  mexec (S f) (MDip body) s =
  match s_stack s with
  | a :: r =>
      match runl (mexec (S f)) body (with_stack s r) with
      | Done s' => Done (with_stack s' (a :: s_stack s'))
      | Failed b x => Failed b x
      end
  | [] => Failed false s
  end.
Proof. reflexivity. Qed.

Lemma mexec_dipn f n body s :
  mexec (S f) (MDipN n body) s =
  if Nat.leb n (List.length (s_stack s)) then
    match runl (mexec (S f)) body (with_stack s (skipn n (s_stack s))) with
    | Done s' => Done (with_stack s' (firstn n (s_stack s) ++ s_stack s'))
    | Failed b x => Failed b x
    end
  else Failed false s.
Proof. reflexivity. Qed.

Lemma mexec_ifnone f bt bf s :
  mexec (S f) (MIfNone bt bf) s =
  match s_stack s with
  | GNone _ :: r => runl (mexec (S f)) bt (with_stack s r)
  | GSome a :: r => runl (mexec (S f)) bf (with_stack s (a :: r))
  | _ => Failed false s
  end.
Proof. reflexivity. Qed.

Lemma mexec_if f bt bf s :
  mexec (S f) (MIf bt bf) s =
  match s_stack s with
  | GBool true :: r => runl (mexec (S f)) bt (with_stack s r)
  | GBool false :: r => runl (mexec (S f)) bf (with_stack s r)
  | _ => Failed false s
  end.
Proof. reflexivity. Qed.

Lemma mexec_loop f body s :
  mexec (S f) (MLoop body) s =
  match s_stack s with
  | GBool true :: r =>
      match runl (mexec (S f)) body (with_stack s r) with
      | Done s' => mexec f (MLoop body) s'
      | Failed b x => Failed b x
      end
  | GBool false :: r => Done (with_stack s r)
  | _ => Failed false s
  end.
Proof. reflexivity. Qed.

Lemma mexec_exec f s :
  mexec (S f) MExec s =
  match s_stack s with
  | arg :: GLam a r body :: rest =>
      if ty_eqb (type_of arg) a then
        match runl (mexec f) body (with_stack s [arg]) with
        | Done s' =>
            match s_stack s' with
            | [res] => if ty_eqb (type_of res) r then Done (with_stack s' (res :: rest)) else Failed false s'
            | _ => Failed false s'
            end
        | Failed b x => Failed b x
        end
      else Failed false s
  | _ => Failed false s
  end.
Proof. reflexivity. Qed.

Lemma mexec_seq f body s : mexec (S f) (MSeq body) s = runl (mexec (S f)) body s.
Proof. reflexivity. Qed.

Lemma mexec_iter f body s :
  mexec (S f) (MIter body) s =
  match s_stack s with
  | GNil _ :: r => Done (with_stack s r)
  | GList _ l :: r => iterl (mexec (S f)) body l (with_stack s r)
  | _ => Failed false s
  end.
Proof. reflexivity. Qed.

Lemma mexec_ifcons f bt bf s :
  mexec (S f) (MIfCons bt bf) s =
  match s_stack s with
  | GList t (x :: l) :: r => runl (mexec (S f)) bt (with_stack s (inj_atom x :: mklist t l :: r))
  | GNil _ :: r => runl (mexec (S f)) bf (with_stack s r)
  | _ => Failed false s
  end.
Proof. reflexivity. Qed.

Lemma iterl_canon ex body (Hb : Pl ex body) l : forall s,
  swf s ->
  mrel (iterl ex body l s) (iterl ex body l (canon s)) /\
  (forall s', iterl ex body l s = Done s' -> swf s' /\ frame s s').
Proof.
  induction l as [|x r IH]; intros s W; cbn [iterl].
  - split; [reflexivity|]. intros s' E. injection E as <-. auto using frame_refl.
  - assert (W0 : swf (with_stack s (inj_atom x :: s_stack s))) by (split; [apply vwf_inj_atom|exact W]).
    destruct (Hb _ W0) as [R1 R2].
    assert (Ec : canon (with_stack s (inj_atom x :: s_stack s)) = with_stack (canon s) (inj_atom x :: s_stack (canon s))).
    { unfold canon, with_stack. simpl. rewrite cz_inj_atom. reflexivity. }
    rewrite <- Ec.
    destruct (runl ex body (with_stack s (inj_atom x :: s_stack s))) as [s1|b sf],
             (runl ex body (canon (with_stack s (inj_atom x :: s_stack s)))) as [c1|b' cf]; simpl in R1; try contradiction.
    + subst c1. destruct (R2 s1 eq_refl) as [W1 F1]. destruct (IH s1 W1) as [R3 R4].
      split; [exact R3|]. intros s' E. destruct (R4 s' E) as [W' F'].
      split; [exact W'|]. apply (frame_trans _ s1); [|exact F']. destruct F1 as [A B]. split; [exact A|exact B].
    + split; [exact R1|]. intros; discriminate.
Qed.

Lemma mexec_map f body s :
  mexec (S f) (MMap body) s =
  match s_stack s with
  | GNil t :: r => Done s
  | GList _ l :: r => mapl (mexec (S f)) body l [] (with_stack s r)
  | _ => Failed false s
  end.
Proof. reflexivity. Qed.

Lemma mapl_canon ex body (Hb : Pl ex body) l : forall acc s,
  swf s ->
  mrel (mapl ex body l acc s) (mapl ex body l acc (canon s)) /\
  (forall s', mapl ex body l acc s = Done s' -> swf s' /\ frame s s').
Proof.
  induction l as [|x r IH]; intros acc s W; cbn [mapl].
  - destruct acc as [|a0 acc']; [split; [reflexivity|]; intros s' E; injection E as <-; auto using frame_refl|].
    destruct (forallb _ (a0 :: acc')); [|split; [reflexivity|intros; discriminate]].
    split; [reflexivity|]. intros s' E. injection E as <-. split; [split; [exact I|exact W]|split; reflexivity].
  - assert (W0 : swf (with_stack s (inj_atom x :: s_stack s))) by (split; [apply vwf_inj_atom|exact W]).
    destruct (Hb _ W0) as [R1 R2].
    assert (Ec : canon (with_stack s (inj_atom x :: s_stack s)) = with_stack (canon s) (inj_atom x :: s_stack (canon s))).
    { unfold canon, with_stack. simpl. rewrite cz_inj_atom. reflexivity. }
    rewrite <- Ec.
    destruct (runl ex body (with_stack s (inj_atom x :: s_stack s))) as [s1|b sf],
             (runl ex body (canon (with_stack s (inj_atom x :: s_stack s)))) as [c1|b' cf]; simpl in R1; try contradiction.
    + subst c1. destruct (R2 s1 eq_refl) as [W1 F1].
      destruct s1 as [st1 cur1 ctx1 stale1 nxt1]. unfold swf in W1. simpl in W1. simpl s_stack.
      destruct st1 as [|res st']; simpl map; [split; [reflexivity|intros; discriminate]|].
      cbv beta iota. rewrite proj_atom_cz. destruct (proj_atom res) as [a|]; [|split; [reflexivity|intros; discriminate]].
      destruct W1 as [Wres Wst].
      assert (W2 : swf (with_stack (mkS (res :: st') cur1 ctx1 stale1 nxt1) st')) by exact Wst.
      destruct (IH (acc ++ [a]) _ W2) as [R3 R4].
      split; [exact R3|]. intros s' E. destruct (R4 s' E) as [W' F'].
      split; [exact W'|]. destruct F1 as [A B], F' as [C D]. simpl in *. split; congruence.
    + split; [exact R1|]. intros; discriminate.
Qed.

Lemma lwf_app cur a b : lwf cur a -> lwf cur b -> lwf cur (a ++ b).
Proof. induction a as [|x a IH]; simpl; [auto|]. intros [Hx Ha] Hb. auto. Qed.

Lemma lwf_firstn cur n : forall l, lwf cur l -> lwf cur (firstn n l).
Proof. induction n as [|n IH]; intros [|x l]; simpl; auto. intros [Hx Hl]. auto. Qed.

Lemma lwf_skipn cur n : forall l, lwf cur l -> lwf cur (skipn n l).
Proof. induction n as [|n IH]; intros [|x l]; simpl; auto. intros [Hx Hl]. auto. Qed.

(* a step on the canonical image of a session whose stack was replaced *)
Lemma canon_with_stack s st : canon (with_stack s st) = with_stack (canon s) (map cz st).
Proof. reflexivity. Qed.

Lemma mexec_canon : forall fuel i, Pe (mexec fuel) i.
Proof.
  induction fuel as [|f IHf].
  - intros i s W. simpl. split; [reflexivity|intros; discriminate].
  - assert (IHl : forall l, Pl (mexec f) l) by (intro l; apply runl_forall, Forall_forall; intros i _; apply IHf).
    apply minstr_ind'.
    + (* flat instructions *)
      intros i F s W. rewrite !(mexec_flat f i _ F).
      destruct (mstep_canon i s W) as [E1 E2]. rewrite E1.
      destruct (mstep i s) as [s1|]; simpl; [|split; [reflexivity|intros; discriminate]].
      split; [reflexivity|]. intros s' E. injection E as <-. auto.
    + (* DIP *)
      intros body Hb s W. rewrite !mexec_dip.
      destruct s as [st cur ctx stale nxt]. destruct st as [|a r]; simpl s_stack; [split; [reflexivity|intros; discriminate]|].
      simpl map. unfold swf in W. simpl in W. destruct W as [Wa Wr].
      assert (W0 : swf (with_stack (mkS (a :: r) cur ctx stale nxt) r)) by exact Wr.
      destruct (runl_forall _ body Hb _ W0) as [R1 R2].
      change (with_stack (canon (mkS (a :: r) cur ctx stale nxt)) (map cz r))
        with (canon (with_stack (mkS (a :: r) cur ctx stale nxt) r)).
      destruct (runl _ body (with_stack (mkS (a :: r) cur ctx stale nxt) r)) as [s1|b sf],
               (runl _ body (canon (with_stack (mkS (a :: r) cur ctx stale nxt) r))) as [c1|b' cf];
        simpl in R1; try contradiction.
      * subst c1. destruct (R2 s1 eq_refl) as [W1 [C1 N1]]. simpl in C1, N1.
        split; [reflexivity|]. intros s' E. injection E as <-. unfold swf, frame. simpl.
        unfold swf in W1. rewrite C1 in W1. rewrite C1. repeat split; auto.
      * split; [exact R1|]. intros; discriminate.
    + (* IF_NONE *)
      intros bt bf Ht Hf s W. rewrite !mexec_ifnone.
      destruct s as [st cur ctx stale nxt]. destruct st as [|top r]; simpl s_stack; [split; [reflexivity|intros; discriminate]|].
      simpl map. unfold swf in W. simpl in W. destruct W as [Wt Wr].
      destruct top; simpl cz; try (split; [reflexivity|intros; discriminate]).
      * assert (W0 : swf (with_stack (mkS (GNone t :: r) cur ctx stale nxt) r)) by exact Wr.
        destruct (runl_forall _ bt Ht _ W0) as [R1 R2].
        split; [exact R1|]. intros s' E. destruct (R2 s' E) as [W' F']. split; [exact W'|exact F'].
      * assert (W0 : swf (with_stack (mkS (GSome top :: r) cur ctx stale nxt) (top :: r))) by (split; assumption).
        destruct (runl_forall _ bf Hf _ W0) as [R1 R2].
        split; [exact R1|]. intros s' E. destruct (R2 s' E) as [W' F']. split; [exact W'|exact F'].
    + (* DIP n *)
      intros n body Hb s W. rewrite !mexec_dipn.
      destruct s as [st cur ctx stale nxt]. unfold swf in W. simpl in W.
      simpl s_stack. rewrite map_length.
      destruct (Nat.leb n (List.length st)); [|split; [reflexivity|intros; discriminate]].
      assert (W0 : swf (with_stack (mkS st cur ctx stale nxt) (skipn n st))) by (apply lwf_skipn, W).
      destruct (runl_forall _ body Hb _ W0) as [R1 R2].
      rewrite skipn_map, firstn_map.
      change (with_stack (canon (mkS st cur ctx stale nxt)) (map cz (skipn n st)))
        with (canon (with_stack (mkS st cur ctx stale nxt) (skipn n st))).
      destruct (runl _ body (with_stack (mkS st cur ctx stale nxt) (skipn n st))) as [s1|b sf],
               (runl _ body (canon (with_stack (mkS st cur ctx stale nxt) (skipn n st)))) as [c1|b' cf];
        simpl in R1; try contradiction.
      * subst c1. destruct (R2 s1 eq_refl) as [W1 [C1 N1]]. simpl in C1, N1.
        split.
        -- simpl. unfold canon, with_stack. simpl. f_equal. symmetry. apply map_app.
        -- intros s' E. injection E as <-. unfold swf, frame. simpl.
           unfold swf in W1. rewrite C1 in W1. rewrite C1. repeat split; auto.
           apply lwf_app; [apply lwf_firstn, W|exact W1].
      * split; [exact R1|]. intros; discriminate.
    + (* IF *)
      intros bt bf Ht Hf s W. rewrite !mexec_if.
      destruct s as [st cur ctx stale nxt]. destruct st as [|top r]; simpl s_stack; [split; [reflexivity|intros; discriminate]|].
      simpl map. unfold swf in W. simpl in W. destruct W as [Wt Wr].
      destruct top; simpl cz; try (split; [reflexivity|intros; discriminate]).
      assert (W0 : swf (with_stack (mkS (GBool b :: r) cur ctx stale nxt) r)) by exact Wr.
      destruct b.
      * destruct (runl_forall _ bt Ht _ W0) as [R1 R2].
        split; [exact R1|]. intros s' E. destruct (R2 s' E) as [W' F']. split; [exact W'|exact F'].
      * destruct (runl_forall _ bf Hf _ W0) as [R1 R2].
        split; [exact R1|]. intros s' E. destruct (R2 s' E) as [W' F']. split; [exact W'|exact F'].
    + (* LOOP *)
      intros body Hb s W. rewrite !mexec_loop.
      destruct s as [st cur ctx stale nxt]. destruct st as [|top r]; simpl s_stack; [split; [reflexivity|intros; discriminate]|].
      simpl map. unfold swf in W. simpl in W. destruct W as [Wt Wr].
      destruct top; simpl cz; try (split; [reflexivity|intros; discriminate]).
      assert (W0 : swf (with_stack (mkS ((GBool b : value) :: r) cur ctx stale nxt) r)) by exact Wr.
      destruct b.
      * destruct (runl_forall _ body Hb _ W0) as [R1 R2].
        change (with_stack (canon (mkS ((GBool true : value) :: r) cur ctx stale nxt)) (map cz r))
          with (canon (with_stack (mkS ((GBool true : value) :: r) cur ctx stale nxt) r)).
        destruct (runl _ body (with_stack (mkS ((GBool true : value) :: r) cur ctx stale nxt) r)) as [s1|b sf],
                 (runl _ body (canon (with_stack (mkS ((GBool true : value) :: r) cur ctx stale nxt) r))) as [c1|b' cf];
          simpl in R1; try contradiction.
        -- subst c1. destruct (R2 s1 eq_refl) as [W1 F1].
           destruct (IHf (MLoop body) s1 W1) as [R3 R4].
           split; [exact R3|]. intros s' E. destruct (R4 s' E) as [W' F'].
           split; [exact W'|]. apply (frame_trans _ s1); [exact F1|exact F'].
        -- split; [exact R1|]. intros; discriminate.
      * split; [reflexivity|]. intros s' E. injection E as <-. split; [exact Wr|split; reflexivity].
    + (* EXEC *)
      intros s W. rewrite !mexec_exec.
      destruct s as [st cur ctx stale nxt]. destruct st as [|arg [|lam rest]]; simpl s_stack;
        try (split; [reflexivity|intros; discriminate]).
      simpl map. unfold swf in W. simpl in W. destruct W as (Wa & Wl & Wr).
      destruct lam; simpl cz; try (split; [reflexivity|intros; discriminate]).
      change (cz (@GLam handle a r body)) with (@GLam handle a r body). cbv beta iota.
      change (type_of (cz arg)) with (type_of (gmap (set_ctx 0) arg)). rewrite type_of_gmap.
      destruct (ty_eqb (type_of arg) a); [|split; [reflexivity|intros; discriminate]].
      assert (W0 : swf (with_stack (mkS (arg :: (GLam a r body : value) :: rest) cur ctx stale nxt) [arg])) by (split; [exact Wa|exact I]).
      destruct (IHl body _ W0) as [R1 R2].
      change (with_stack (canon (mkS (arg :: (GLam a r body : value) :: rest) cur ctx stale nxt)) [cz arg])
        with (canon (with_stack (mkS (arg :: (GLam a r body : value) :: rest) cur ctx stale nxt) [arg])).
      destruct (runl _ body (with_stack (mkS (arg :: (GLam a r body : value) :: rest) cur ctx stale nxt) [arg])) as [s1|b sf],
               (runl _ body (canon (with_stack (mkS (arg :: (GLam a r body : value) :: rest) cur ctx stale nxt) [arg]))) as [c1|b' cf];
        simpl in R1; try contradiction.
      * subst c1. destruct (R2 s1 eq_refl) as [W1 [C1 N1]]. simpl in C1, N1.
        destruct s1 as [st1 cur1 ctx1 stale1 nxt1]. simpl in C1, N1. subst cur1 nxt1.
        unfold swf in W1. simpl in W1.
        destruct st1 as [|res [|x y]]; simpl; try (split; [reflexivity|intros; discriminate]).
        change (type_of (cz res)) with (type_of (gmap (set_ctx 0) res)). rewrite type_of_gmap.
        destruct (ty_eqb (type_of res) r); [|split; [reflexivity|intros; discriminate]].
        split; [reflexivity|]. intros s' E. injection E as <-. unfold swf, frame. simpl.
        destruct W1 as [Wres _]. repeat split; auto.
      * split; [exact R1|]. intros; discriminate.

    + (* { .. } *)
      intros body Hb s W. rewrite !mexec_seq. exact (runl_forall _ body Hb s W).
    + (* ITER *)
      intros body Hb s W. rewrite !mexec_iter.
      destruct s as [st cur ctx stale nxt]. destruct st as [|top r]; simpl s_stack; [split; [reflexivity|intros; discriminate]|].
      simpl map. unfold swf in W. simpl in W. destruct W as [Wt Wr].
      destruct top; simpl cz; try (split; [reflexivity|intros; discriminate]).
      * split; [reflexivity|]. intros s' E. injection E as <-. split; [exact Wr|split; reflexivity].
      * assert (W0 : swf (with_stack (mkS ((GList t l : value) :: r) cur ctx stale nxt) r)) by exact Wr.
        destruct (iterl_canon _ body (runl_forall _ body Hb) l _ W0) as [R1 R2].
        split; [exact R1|]. intros s' E. destruct (R2 s' E) as [W' F']. split; [exact W'|exact F'].
    + (* IF_CONS *)
      intros bt bf Ht Hf s W. rewrite !mexec_ifcons.
      destruct s as [st cur ctx stale nxt]. destruct st as [|top r]; simpl s_stack; [split; [reflexivity|intros; discriminate]|].
      simpl map. unfold swf in W. simpl in W. destruct W as [Wt Wr].
      destruct top; simpl cz; try (split; [reflexivity|intros; discriminate]).
      * assert (W0 : swf (with_stack (mkS ((GNil t : value) :: r) cur ctx stale nxt) r)) by exact Wr.
        destruct (runl_forall _ bf Hf _ W0) as [R1 R2].
        split; [exact R1|]. intros s' E. destruct (R2 s' E) as [W' F']. split; [exact W'|exact F'].
      * destruct l as [|x l]; [split; [reflexivity|intros; discriminate]|].
        assert (W0 : swf (with_stack (mkS ((GList t (x :: l) : value) :: r) cur ctx stale nxt) (inj_atom x :: mklist t l :: r)))
          by (repeat split; [apply vwf_inj_atom|apply vwf_mklist|exact Wr]).
        destruct (runl_forall _ bt Ht _ W0) as [R1 R2].
        assert (Ec : canon (with_stack (mkS ((GList t (x :: l) : value) :: r) cur ctx stale nxt) (inj_atom x :: mklist t l :: r))
                     = with_stack (canon (mkS ((GList t (x :: l) : value) :: r) cur ctx stale nxt)) (inj_atom x :: mklist t l :: map cz r)).
        { unfold canon, with_stack. simpl. rewrite cz_inj_atom. fold cz. rewrite cz_mklist. reflexivity. }
        change (cz (@GList handle t (x :: l))) with (@GList handle t (x :: l)). cbv beta iota.
        rewrite <- Ec.
        split; [exact R1|]. intros s' E. destruct (R2 s' E) as [W' F']. split; [exact W'|exact F'].
    + (* MAP *)
      intros body Hb s W. rewrite !mexec_map.
      destruct s as [st cur ctx stale nxt]. destruct st as [|top r]; simpl s_stack; [split; [reflexivity|intros; discriminate]|].
      simpl map. unfold swf in W. simpl in W. destruct W as [Wt Wr].
      destruct top; simpl cz; try (split; [reflexivity|intros; discriminate]).
      * split; [reflexivity|]. intros s' E. injection E as <-. split; [split; [exact I|exact Wr]|split; reflexivity].
      * assert (W0 : swf (with_stack (mkS ((GList t l : value) :: r) cur ctx stale nxt) r)) by exact Wr.
        destruct (mapl_canon _ body (runl_forall _ body Hb) l [] _ W0) as [R1 R2].
        split; [exact R1|]. intros s' E. destruct (R2 s' E) as [W' F']. split; [exact W'|exact F'].
Qed.

Lemma mrun_canon fuel l : forall s,
  swf s ->
  mrel (mrun fuel l s) (mrun fuel l (canon s)) /\
  (forall s', mrun fuel l s = Done s' -> swf s' /\ frame s s').
Proof.
  unfold mrun. apply runl_forall, Forall_forall. intros i _. apply mexec_canon.
Qed.

Lemma attach_canon cp cur v : forall c,
  attach cp 0 v c = (cz (fst (attach cp cur v c)), snd (attach cp cur v c)) /\ vwf cur (fst (attach cp cur v c)).
Proof.
  induction v as [| | | | |a IHa b IHb| |a IHa| |k t h|bb|la lr lbody|lt ll]; intro c; simpl; auto.
  - destruct (IHa c) as [Ea Wa]. rewrite Ea.
    destruct (attach cp cur a c) as [a' c1]. simpl in *.
    destruct (IHb c1) as [Eb Wb]. rewrite Eb.
    destruct (attach cp cur b c1) as [b' c2]. simpl in *. auto.
  - destruct (IHa c) as [Ea Wa]. rewrite Ea.
    destruct (attach cp cur a c) as [a' c1]. simpl in *. auto.
  - destruct h as [p|its]; [destruct cp|]; simpl; auto.
Qed.

Lemma aggregate_h_canon k t h s :
  h_ctx h = s_cur s ->
  aggregate_h k t (set_ctx 0 h) (canon s) =
  match aggregate_h k t h s with
  | Some (h', d, s') => Some (set_ctx 0 h', d, canon s')
  | None => None
  end /\
  (forall h' d s', aggregate_h k t h s = Some (h', d, s') ->
     h_ctx h' = s_cur s /\ frame s s' /\ s_stack s' = s_stack s).
Proof.
  intro H. unfold aggregate_h, set_ctx. cbn [h_ctx h_ptr h_items h_removed].
  rewrite H, !lookup_cur. simpl s_ctx.
  destruct (big_map_diff (h_ptr h) (s_ctx s)) as [[dst act] c'].
  rewrite !store_cur. split.
  - simpl. reflexivity.
  - intros h' d s' E. injection E as <- _ <-. simpl. repeat split; reflexivity.
Qed.

Lemma aggregate_canon v : forall s,
  vwf (s_cur s) v ->
  aggregate (cz v) (canon s) =
  match aggregate v s with
  | Some (v', d, s') => Some (cz v', d, canon s')
  | None => None
  end /\
  (forall v' d s', aggregate v s = Some (v', d, s') ->
     vwf (s_cur s) v' /\ frame s s' /\ s_stack s' = s_stack s).
Proof.
  induction v as [|z|z|str|z|a IHa b IHb|t0|a IHa|t0|k t h|bb|la lr lbody|lt ll]; intros s W; simpl;
    try (split; [reflexivity | intros v' d s' E; injection E as <- _ <-; simpl; auto using frame_refl]).
  - destruct W as [Wa Wb]. destruct (IHa s Wa) as [Ea Fa]. fold cz. rewrite Ea.
    destruct (aggregate a s) as [[[a' d1] s1]|]; [|split; [reflexivity|intros; discriminate]].
    destruct (Fa a' d1 s1 eq_refl) as (Wa' & F1 & St1).
    assert (Wb1 : vwf (s_cur s1) b) by (destruct F1 as [-> _]; exact Wb).
    destruct (IHb s1 Wb1) as [Eb Fb]. rewrite Eb.
    destruct (aggregate b s1) as [[[b' d2] s2]|]; [|split; [reflexivity|intros; discriminate]].
    destruct (Fb b' d2 s2 eq_refl) as (Wb' & F2 & St2).
    split; [reflexivity|]. intros v' d s' E. injection E as <- _ <-. simpl.
    destruct F1 as [C1 N1]. rewrite C1 in Wb'. repeat split; try assumption.
    + destruct F2; congruence.
    + destruct F2; congruence.
    + congruence.
  - destruct (IHa s W) as [Ea Fa]. fold cz. rewrite Ea.
    destruct (aggregate a s) as [[[a' d1] s1]|]; [|split; [reflexivity|intros; discriminate]].
    destruct (Fa a' d1 s1 eq_refl) as (Wa' & F1 & St1).
    split; [reflexivity|]. intros v' d s' E. injection E as <- _ <-. simpl. auto.
  - destruct (aggregate_h_canon k t h s W) as [Eh Fh]. rewrite Eh.
    destruct (aggregate_h k t h s) as [[[h' d] s1]|]; [|split; [reflexivity|intros; discriminate]].
    destruct (Fh h' d s1 eq_refl) as (Wh' & F1 & St1).
    split; [reflexivity|]. intros v' d0 s' E. injection E as <- _ <-. simpl. auto.
Qed.

Lemma begin_canon p st s :
  begin p st (canon s) = option_map canon (begin p st s) /\
  (forall s', begin p st s = Some s' -> swf s' /\ frame s s').
Proof.
  unfold begin. simpl s_ctx. simpl s_cur.
  destruct (c_param (s_ctx s)) as [pt|]; [|split; [reflexivity|intros; discriminate]].
  destruct (c_storage (s_ctx s)) as [stt|]; [|split; [reflexivity|intros; discriminate]].
  destruct (parse_v pt p) as [pv|]; [|split; [reflexivity|intros; discriminate]].
  destruct (parse_v stt st) as [sv|]; [|split; [reflexivity|intros; discriminate]].
  destruct (attach_canon true (s_cur s) pv (s_ctx s)) as [E1 W1]. rewrite E1.
  destruct (attach true (s_cur s) pv (s_ctx s)) as [pv' c1]. simpl fst in *. simpl snd in *.
  destruct (attach_canon false (s_cur s) sv c1) as [E2 W2]. rewrite E2.
  destruct (attach false (s_cur s) sv c1) as [sv' c2]. simpl fst in *. simpl snd in *.
  split; [reflexivity|]. intros s' E. injection E as <-. unfold swf, frame. simpl. auto.
Qed.

Lemma ptr_cz v : gmap h_ptr (cz v) = gmap h_ptr v.
Proof. unfold cz. rewrite gmap_gmap. reflexivity. Qed.

Lemma commit_canon s :
  swf s ->
  commit (canon s) =
  match commit s with
  | Some (d, raw, res, s') => Some (d, cz raw, cz res, canon s')
  | None => None
  end /\
  (forall d raw res s', commit s = Some (d, raw, res, s') -> swf s' /\ frame s s').
Proof.
  destruct s as [st cur ctx stale nxt]. unfold swf, commit. simpl s_stack. simpl s_ctx. simpl s_cur.
  intro W.
  destruct st as [|top [|x r]]; simpl map; try (split; [reflexivity|intros; discriminate]).
  2:{ destruct top; simpl; split; try reflexivity; intros; discriminate. }
  destruct top; simpl; try (split; [reflexivity|intros; discriminate]).
  destruct (c_storage ctx) as [stt|]; [|split; [reflexivity|intros; discriminate]].
  fold cz. unfold cz at 1 2. rewrite !type_of_gmap. fold cz.
  destruct (ty_eqb (type_of top1) (TList TOperation)); simpl andb; [|split; [reflexivity|intros; discriminate]].
  destruct (ty_eqb (type_of top2) stt); [|split; [reflexivity|intros; discriminate]].
  simpl in W. destruct W as [[W1 W2] _].
  destruct (aggregate_canon top2 (with_stack (mkS [GPair top1 top2] cur ctx stale nxt) []) W2) as [E F].
  change (with_stack (canon (mkS [GPair top1 top2] cur ctx stale nxt)) [])
    with (canon (with_stack (mkS [GPair top1 top2] cur ctx stale nxt) [])).
  rewrite E.
  destruct (aggregate top2 _) as [[[stv' d] s1]|]; [|split; [reflexivity|intros; discriminate]].
  destruct (F stv' d s1 eq_refl) as (Wv & F1 & St1).
  split; [reflexivity|]. intros d0 raw res s' E0. injection E0 as _ _ _ <-.
  unfold swf. rewrite St1. simpl. auto.
Qed.

(* ---------------------------------------------------------------------------------------- *)
(* REPL instructions, instruction lists                                                     *)
(* ---------------------------------------------------------------------------------------- *)

Lemma swf_with_stack_nil s : swf (with_stack s []).
Proof. exact I. Qed.

Lemma istep_canon fuel i s :
  swf s ->
  orel (istep fuel i s) (istep fuel i (canon s)) /\
  (forall s' o, istep fuel i s = Done (s', o) -> swf s' /\ frame s s').
Proof.
  intro W. destruct i; simpl.
  - (* Michelson *)
    destruct (mexec_canon fuel m s W) as [R1 R2].
    destruct (mexec fuel m s) as [s1|b sf], (mexec fuel m (canon s)) as [c1|b' cf]; simpl in R1; try contradiction.
    + subst c1. split; [split; reflexivity|]. intros s' o E. injection E as <- _. auto.
    + split; [exact R1|]. intros; discriminate.
  - split; [split; reflexivity|]. intros s' o E. injection E as <- _. split; [exact W|split; reflexivity].
  - split; [split; reflexivity|]. intros s' o E. injection E as <- _. split; [exact W|split; reflexivity].
  - split; [split; reflexivity|]. intros s' o E. injection E as <- _. split; [exact W|split; reflexivity].
  - (* BEGIN *)
    destruct (begin_canon p s0 s) as [E1 E2]. rewrite E1.
    destruct (begin p s0 s) as [s1|]; simpl.
    + split; [split; reflexivity|]. intros s' o E. injection E as <- _. auto.
    + split; [reflexivity|]. intros; discriminate.
  - (* COMMIT *)
    destruct (commit_canon s W) as [E1 E2]. rewrite E1.
    destruct (commit s) as [[[[d raw] res] s1]|]; simpl.
    + rewrite ptr_cz. split; [split; reflexivity|]. intros s' o E. injection E as <- _. eauto.
    + split; [reflexivity|]. intros; discriminate.
  - (* RUN *)
    destruct (c_code (s_ctx s)) as [body|]; [|split; [reflexivity|intros; discriminate]].
    destruct (begin_canon p s0 (with_stack s [])) as [E1 E2].
    change (with_stack (canon s) []) with (canon (with_stack s [])). rewrite E1.
    destruct (begin p s0 (with_stack s [])) as [s1|]; simpl; [|split; [reflexivity|intros; discriminate]].
    destruct (E2 s1 eq_refl) as [W1 F1].
    destruct (mrun_canon fuel body s1 W1) as [R1 R2].
    destruct (mrun fuel body s1) as [s2|b sf], (mrun fuel body (canon s1)) as [c2|b' cf]; simpl in R1; try contradiction.
    2:{ split; [exact R1|intros; discriminate]. }
    subst c2. destruct (R2 s2 eq_refl) as [W2 F2].
    destruct (commit_canon s2 W2) as [E3 E4]. rewrite E3.
    destruct (commit s2) as [[[[d raw] res] s3]|]; simpl.
    + rewrite ptr_cz. split; [split; reflexivity|]. intros s' o E. injection E as <- _.
      destruct (E4 d raw res s3 eq_refl) as [W3 F3]. split; [exact W3|].
      apply (frame_trans _ (with_stack s [])); [split; reflexivity|]. eauto using frame_trans.
    + split; [reflexivity|]. intros; discriminate.
  - (* BIG_MAP_DIFF *)
    destruct s as [st cur ctx stale nxt]. destruct st as [|top r]; simpl; [split; [reflexivity|intros; discriminate]|].
    unfold swf in W. simpl in W. destruct W as [Wt Wr].
    destruct (aggregate_canon top (mkS (top :: r) cur ctx stale nxt) Wt) as [E F].
    change (mkS (gmap (set_ctx 0) top :: map cz r) 0 ctx [] 1) with (canon (mkS (top :: r) cur ctx stale nxt)).
    fold cz. rewrite E.
    destruct (aggregate top _) as [[[v' d] s1]|]; simpl; [|split; [reflexivity|intros; discriminate]].
    destruct (F v' d s1 eq_refl) as (Wv & F1 & St1).
    split; [split; reflexivity|]. intros s' o E0. injection E0 as <- _.
    unfold swf. simpl. destruct F1 as [C1 N1]. simpl in C1. rewrite C1. split; [auto|split; assumption].
  - (* RESET *)
    split; [split; reflexivity|]. intros s' o E. injection E as <- _. split; [exact I|split; reflexivity].
Qed.

Lemma irun_canon fuel l : forall s acc,
  swf s ->
  orel (irun fuel l s acc) (irun fuel l (canon s) acc) /\
  (forall s' o, irun fuel l s acc = Done (s', o) -> swf s' /\ frame s s').
Proof.
  induction l as [|i r IH]; intros s acc W; simpl.
  - split; [split; reflexivity|]. intros s' o E. injection E as <- _. auto using frame_refl.
  - destruct (istep_canon fuel i s W) as [R1 R2].
    destruct (istep fuel i s) as [[s1 o1]|b sf], (istep fuel i (canon s)) as [[c1 o1']|b' cf]; simpl in R1; try contradiction.
    + destruct R1 as [-> ->]. destruct (R2 s1 o1 eq_refl) as [W1 F1].
      destruct (IH s1 (acc ++ o1) W1) as [R3 R4]. split; [exact R3|].
      intros s' o E. destruct (R4 s' o E) as [W' F']. eauto using frame_trans.
    + split; [exact R1|]. intros; discriminate.
Qed.

(* ---------------------------------------------------------------------------------------- *)
(* cells                                                                                    *)
(* ---------------------------------------------------------------------------------------- *)

Lemma view_canon s : view (canon s) = view s.
Proof.
  unfold view, canon. simpl. fold cz. rewrite map_map. f_equal. apply map_ext. intro a. apply cz_cz.
Qed.

Lemma swf_canon s : swf (canon s).
Proof. unfold swf, canon. simpl. apply lwf_cz. Qed.

Lemma canon_of_view s s2 : view s = view s2 -> canon s = canon s2.
Proof. unfold view. intro E. injection E as E1 E2. unfold canon. f_equal; [exact E1|exact E2]. Qed.

(* the restore of mode Rebind re-establishes view and invariant, whatever the failed run did *)
Lemma restore_rebind s0 sf :
  swf s0 -> view (restore Rebind s0 sf) = view s0 /\ swf (restore Rebind s0 sf).
Proof.
  intro W. unfold restore, view, swf. simpl.
  destruct (map_cz_rebind (s_cur s0) (s_next sf) (s_stack s0) W) as [E W'].
  split; [f_equal; exact E|exact W'].
Qed.

Lemma exec_cell_canon fuel c s :
  swf s ->
  snd (exec_cell Rebind fuel s c) = snd (exec_cell Rebind fuel (canon s) c) /\
  view (fst (exec_cell Rebind fuel s c)) = view (fst (exec_cell Rebind fuel (canon s) c)) /\
  swf (fst (exec_cell Rebind fuel s c)) /\ swf (fst (exec_cell Rebind fuel (canon s) c)).
Proof.
  intro W. pose proof (swf_canon s) as Wc.
  destruct c as [| |l]; simpl.
  - destruct (restore_rebind s s W) as [E1 W1]. destruct (restore_rebind (canon s) (canon s) Wc) as [E2 W2].
    rewrite E1, E2, view_canon. auto.
  - rewrite view_canon. auto.
  - destruct (forallb instr_valid l).
    + destruct (irun_canon fuel l s [] W) as [R1 R2].
      destruct (irun fuel l s []) as [[s1 o1]|b sf], (irun fuel l (canon s) []) as [[c1 o1']|b' cf]; simpl in R1; try contradiction.
      * destruct R1 as [-> ->]. destruct (R2 s1 o1 eq_refl) as [W1 F1]. simpl.
        rewrite view_canon. auto using swf_canon.
      * subst b'. simpl. destruct (restore_rebind s sf W) as [E1 W1]. destruct (restore_rebind (canon s) cf Wc) as [E2 W2].
        rewrite E1, E2, view_canon. auto.
    + simpl. destruct (restore_rebind s s W) as [E1 W1]. destruct (restore_rebind (canon s) (canon s) Wc) as [E2 W2].
      rewrite E1, E2, view_canon. auto.
Qed.

(* sessions with the same view are indistinguishable by a cell *)
Lemma exec_cell_rel fuel c s s2 :
  swf s -> swf s2 -> view s = view s2 ->
  snd (exec_cell Rebind fuel s c) = snd (exec_cell Rebind fuel s2 c) /\
  view (fst (exec_cell Rebind fuel s c)) = view (fst (exec_cell Rebind fuel s2 c)) /\
  swf (fst (exec_cell Rebind fuel s c)) /\ swf (fst (exec_cell Rebind fuel s2 c)).
Proof.
  intros W W2 E.
  destruct (exec_cell_canon fuel c s W) as (A1 & A2 & A3 & _).
  destruct (exec_cell_canon fuel c s2 W2) as (B1 & B2 & B3 & _).
  rewrite (canon_of_view s s2 E) in A1, A2.
  repeat split; try assumption; congruence.
Qed.

(* a failing cell leaves the view as it was *)
Lemma exec_cell_fail fuel c s :
  swf s -> is_done (snd (exec_cell Rebind fuel s c)) = false ->
  view (fst (exec_cell Rebind fuel s c)) = view s /\ swf (fst (exec_cell Rebind fuel s c)).
Proof.
  intros W. destruct c as [| |l]; simpl.
  - intros _. apply restore_rebind, W.
  - auto.
  - destruct (forallb instr_valid l).
    + destruct (irun fuel l s []) as [[s1 o1]|b sf]; simpl; [discriminate|].
      intros _. apply restore_rebind, W.
    + intros _. apply restore_rebind, W.
Qed.

Lemma exec_cell_swf fuel c s : swf s -> swf (fst (exec_cell Rebind fuel s c)).
Proof. intro W. apply (exec_cell_canon fuel c s W). Qed.

(* ---------------------------------------------------------------------------------------- *)
(* sessions                                                                                 *)
(* ---------------------------------------------------------------------------------------- *)

Lemma run_cons m fuel s c r :
  run m fuel s (c :: r) =
  (fst (run m fuel (fst (exec_cell m fuel s c)) r), snd (exec_cell m fuel s c) :: snd (run m fuel (fst (exec_cell m fuel s c)) r)).
Proof.
  simpl. destruct (exec_cell m fuel s c) as [s1 o]. simpl. destruct (run m fuel s1 r) as [s2 os]. reflexivity.
Qed.

Lemma run_swf fuel cells : forall s, swf s -> swf (fst (run Rebind fuel s cells)).
Proof.
  induction cells as [|c r IH]; intros s W; [exact W|].
  rewrite run_cons. simpl. apply IH, exec_cell_swf, W.
Qed.

(* main lemma: from two sessions with the same view, the session with the failing cells removed
   produces the results of the surviving cells and ends with the same view *)
Lemma run_noop fuel cells : forall s s2,
  swf s -> swf s2 -> view s = view s2 ->
  let rs := snd (run Rebind fuel s cells) in
  snd (run Rebind fuel s2 (keep_done cells rs)) = filter is_done rs /\
  view (fst (run Rebind fuel s2 (keep_done cells rs))) = view (fst (run Rebind fuel s cells)).
Proof.
  induction cells as [|c r IH]; intros s s2 W W2 E; cbv zeta.
  - simpl. auto.
  - rewrite run_cons. simpl snd. simpl fst. simpl keep_done. simpl filter.
    destruct (is_done (snd (exec_cell Rebind fuel s c))) eqn:D.
    + destruct (exec_cell_rel fuel c s s2 W W2 E) as (R1 & R2 & R3 & R4).
      rewrite run_cons. simpl snd. simpl fst.
      destruct (IH _ _ R3 R4 R2) as [I1 I2].
      rewrite <- R1, I1, I2. auto.
    + destruct (exec_cell_fail fuel c s W D) as [V1 W1].
      apply (IH _ _ W1 W2). congruence.
Qed.

Lemma swf_init : swf init.
Proof. exact I. Qed.

Lemma filter_done_all rs : forallb is_done (filter is_done rs) = true.
Proof. induction rs as [|r rs IH]; simpl; [reflexivity|]. destruct (is_done r) eqn:D; simpl; [rewrite D|]; exact IH. Qed.

(* equal views stay equal under any continuation, with equal results *)
Lemma run_rel fuel cells : forall s s2,
  swf s -> swf s2 -> view s = view s2 ->
  snd (run Rebind fuel s cells) = snd (run Rebind fuel s2 cells) /\
  view (fst (run Rebind fuel s cells)) = view (fst (run Rebind fuel s2 cells)).
Proof.
  induction cells as [|c r IH]; intros s s2 W W2 E.
  - simpl. auto.
  - rewrite !run_cons. simpl fst. simpl snd.
    destruct (exec_cell_rel fuel c s s2 W W2 E) as (R1 & R2 & R3 & R4).
    destruct (IH _ _ R3 R4 R2) as [I1 I2]. rewrite R1, I1, I2. auto.
Qed.

(* the defect repaired by /repo commit 26d2050, in the model of the old restore *)
Definition witness_19 : list cell :=
  let bm := TBigMap TString TInt in
  [ CCode [IStorage bm; IParameter TUnit];
    CCode [IM (MEmptyBigMap TString TInt)];
    CCode [IM (MPush TInt (NInt 1)); IM MSome; IM (MPush TString (NStr (tx "a"))); IM MUpdate];
    CCode [IM (MPush TInt (NInt 1)); IM MFailwith];
    CCode [IM (MNil TOperation); IM MPair];
    CCode [ICommit];
    CCode [IM (MEmptyBigMap TString TInt); IM (MNil TOperation); IM MPair; ICommit] ].

Definition commit_ids (rs : list cellres) : list Z :=
  flat_map (fun r => match r with
                     | RDone o => flat_map (fun x => match x with OCommit d _ => map d_id d | _ => [] end) o
                     | _ => []
                     end) rs.

Lemma alias_refuted :
  let rs := snd (run Alias 8 init witness_19) in
  commit_ids rs = [0; 0]%Z /\
  commit_ids (snd (run Alias 8 init (keep_done witness_19 rs))) = [0; 1]%Z.
Proof. vm_compute. split; reflexivity. Qed.

Lemma rebind_witness :
  let rs := snd (run Rebind 8 init witness_19) in
  map is_done rs = [true; true; true; false; true; true; true] /\
  commit_ids rs = [0; 1]%Z /\
  commit_ids (snd (run Rebind 8 init (keep_done witness_19 rs))) = [0; 1]%Z.
Proof. vm_compute. repeat split; reflexivity. Qed.

(* ---------------------------------------------------------------------------------------- *)
(* the old restore (mode Alias) on the complement of the defect's class                     *)
(* ---------------------------------------------------------------------------------------- *)

Fixpoint no_handles (v : value) : bool :=
  match v with
  | GPair a b => no_handles a && no_handles b
  | GSome a => no_handles a
  | GBig _ _ _ => false
  | _ => true
  end.

Definition stack_clean (s : session) : bool := forallb no_handles (s_stack s).

(* decidable on the cell sequence (by running it): whenever a cell fails, no big_map is on the stack *)
Fixpoint alias_safe (fuel : nat) (s : session) (cells : list cell) : bool :=
  match cells with
  | [] => true
  | c :: r =>
      (is_done (snd (exec_cell Alias fuel s c)) || stack_clean s) && alias_safe fuel (fst (exec_cell Alias fuel s c)) r
  end.

Lemma gmap_no_handles (f : handle -> handle) v : no_handles v = true -> gmap f v = v.
Proof.
  induction v as [|z|z|str|z|a IHa b IHb|t0|a IHa|t0|k t h|bb|la lr lbody|lt ll]; simpl; intro H; try reflexivity.
  - apply andb_true_iff in H. destruct H as [Ha Hb]. rewrite IHa, IHb; auto.
  - rewrite IHa; auto.
  - discriminate.
Qed.

Lemma restore_clean s sf : stack_clean s = true -> restore Alias s sf = restore Rebind s sf.
Proof.
  unfold stack_clean, restore. intro H. f_equal.
  induction (s_stack s) as [|a r IH]; simpl in *; [reflexivity|].
  apply andb_true_iff in H. destruct H as [Ha Hr].
  rewrite (gmap_no_handles _ a Ha), <- IH; auto.
Qed.

Lemma exec_cell_clean fuel s c : stack_clean s = true -> exec_cell Alias fuel s c = exec_cell Rebind fuel s c.
Proof.
  intro H. destruct c as [| |l]; simpl; try reflexivity.
  - rewrite restore_clean; auto.
  - destruct (forallb instr_valid l); [|rewrite restore_clean; auto].
    destruct (irun fuel l s []) as [[s1 o]|b sf]; [reflexivity|]. rewrite restore_clean; auto.
Qed.

Lemma exec_cell_done_mode m m' fuel s c :
  is_done (snd (exec_cell m fuel s c)) = true -> exec_cell m' fuel s c = exec_cell m fuel s c.
Proof.
  destruct c as [| |l]; simpl; try discriminate.
  destruct (forallb instr_valid l); [|discriminate].
  destruct (irun fuel l s []) as [[s1 o]|b sf]; [reflexivity|destruct b; discriminate].
Qed.

Lemma run_alias_safe fuel cells : forall s, alias_safe fuel s cells = true -> run Alias fuel s cells = run Rebind fuel s cells.
Proof.
  induction cells as [|c r IH]; intros s H; [reflexivity|].
  simpl in H. apply andb_true_iff in H. destruct H as [H1 H2].
  assert (E : exec_cell Alias fuel s c = exec_cell Rebind fuel s c).
  { apply orb_true_iff in H1. destruct H1 as [D|C].
    - symmetry. apply exec_cell_done_mode, D.
    - apply exec_cell_clean, C. }
  rewrite !run_cons, <- E, (IH _ H2). reflexivity.
Qed.

Lemma run_all_done fuel cells : forall s,
  forallb is_done (snd (run Rebind fuel s cells)) = true -> run Alias fuel s cells = run Rebind fuel s cells.
Proof.
  induction cells as [|c r IH]; intros s H; [reflexivity|].
  rewrite run_cons in H. simpl in H. apply andb_true_iff in H. destruct H as [H1 H2].
  rewrite !run_cons, (exec_cell_done_mode Rebind Alias fuel s c H1), (IH _ H2). reflexivity.
Qed.

Lemma alias_partial fuel cells :
  alias_safe fuel init cells = true ->
  let rs := snd (run Alias fuel init cells) in
  snd (run Alias fuel init (keep_done cells rs)) = filter is_done rs /\
  view (fst (run Alias fuel init (keep_done cells rs))) = view (fst (run Alias fuel init cells)).
Proof.
  intro H. cbv zeta. rewrite (run_alias_safe fuel cells init H).
  destruct (run_noop fuel cells init init swf_init swf_init eq_refl) as [E1 E2]. cbv zeta in E1, E2.
  rewrite run_all_done; [auto|]. rewrite E1. apply filter_done_all.
Qed.

(* the class is not empty and does not contain the witness *)
Lemma alias_safe_witness : alias_safe 8 init witness_19 = false.
Proof. vm_compute. reflexivity. Qed.

(* ---------------------------------------------------------------------------------------- *)
(* fuel: results that do not mention RFuel are statements about terminating runs            *)
(* ---------------------------------------------------------------------------------------- *)

Lemma filter_fuel_ok rs : forallb fuel_ok rs = true -> forallb fuel_ok (filter is_done rs) = true.
Proof.
  induction rs as [|r rs IH]; simpl; [reflexivity|]. intro H. apply andb_true_iff in H. destruct H as [H1 H2].
  destruct (is_done r); simpl; [rewrite H1|]; auto.
Qed.

(* a lambda stored on the stack by one cell and run by a later, failing, cell: the shape of seed C22-7 *)
Definition stored_lambda_session : list cell :=
  [ CCode [IM (MLambda TUnit (TBigMap TString TNat) [MDrop; MEmptyBigMap TString TNat])];
    CCode [IM MDup; IM MUnit; IM MExec; IM (MPush TNat (NInt 1)); IM MSome; IM (MPush TString (NStr (tx "x")));
           IM MUpdate; IM MDrop; IM (MPush TString (NStr (tx "boom"))); IM MFailwith];
    CCode [IM MUnit; IM MExec];
    CCode [IStorage (TBigMap TString TNat); IParameter TUnit];
    CCode [IM (MNil TOperation); IM MPair; ICommit] ].

Lemma stored_lambda_example :
  let rs := snd (run Rebind 8 init stored_lambda_session) in
  map is_done rs = [true; false; true; true; true] /\
  forallb fuel_ok rs = true /\
  c_tmp (snd (view (fst (run Rebind 8 init stored_lambda_session)))) = 1%Z.
Proof. vm_compute. repeat split; reflexivity. Qed.
