(* Proofs/Timestamp_proofs.v — lemmas about Michelson/Timestamp.v:
   - days_from_civil inverts civil_from_days for EVERY day number (one 400-year era of 146097
     days is checked by computation, the rest follows from the era arithmetic);
   - the date produced is a valid calendar date, and within MIN_TS..MAX_TS the year is 1000..9999;
   - parse_rfc inverts render_rfc on MIN_TS..MAX_TS;  parse_int inverts dec_of_Z on all of Z and
     a decimal numeral is never taken for an RFC 3339 string;
   - hence parse_ts (format_timestamp z) = Ok z for every integer z. *)
From Coq Require Import List ZArith NArith Bool Lia ZifyBool Decimal DecimalZ DecimalPos.
From Coq.Strings Require Import Byte.
From PV Require Import Base.Bytes Base.Result Michelson.Timestamp.
Import ListNotations.
Local Open Scope Z_scope.

Ltac Zify.zify_post_hook ::= Z.to_euclidean_division_equations.

(* ---------------------------------------------------------------- one era, by computation *)

Definition era_ok (doe : Z) : bool :=
  let '(yoe, m, d) := civ_doe doe in
  (0 <=? yoe) && (yoe <? 400) && (1 <=? m) && (m <=? 12) && (1 <=? d)
  && (d <=? month_days (yoe + (if m <=? 2 then 1 else 0)) m)
  && (doe_of yoe m d =? doe).

Definition era_rows : list Z := map Z.of_nat (seq 0 366).
Definition era_cols : list Z := map Z.of_nat (seq 0 400).

Definition era_chk (doe : Z) : bool := if doe <? 146097 then era_ok doe else true.

Definition era_sweep : bool :=
  forallb (fun a => forallb (fun b => era_chk (400 * a + b)) era_cols) era_rows.

Lemma era_sweep_true : era_sweep = true.
Proof. vm_compute. reflexivity. Qed.

Lemma sweep_spec (rows cols : list Z) (P : Z -> bool) :
  forallb (fun a => forallb (fun b => P (400 * a + b)) cols) rows = true ->
  forall a b, In a rows -> In b cols -> P (400 * a + b) = true.
Proof.
  intros H a b Ha Hb. rewrite forallb_forall in H. specialize (H a Ha).
  rewrite forallb_forall in H. exact (H b Hb).
Qed.

Lemma era_sweep_spec :
  era_sweep = true -> forall a b, In a era_rows -> In b era_cols -> era_chk (400 * a + b) = true.
Proof. unfold era_sweep. apply sweep_spec. Qed.

Lemma in_range_list n z : 0 <= z < Z.of_nat n -> In z (map Z.of_nat (seq 0 n)).
Proof.
  intro H. apply in_map_iff. exists (Z.to_nat z). split; [lia|]. apply in_seq. lia.
Qed.

Lemma era_ok_all doe : 0 <= doe < 146097 -> era_ok doe = true.
Proof.
  intro H.
  assert (Ha : In (doe / 400) era_rows).
  { apply in_range_list. change (Z.of_nat 366) with 366. lia. }
  assert (Hb : In (doe mod 400) era_cols).
  { apply in_range_list. change (Z.of_nat 400) with 400. lia. }
  pose proof (era_sweep_spec era_sweep_true _ _ Ha Hb) as S.
  replace (400 * (doe / 400) + doe mod 400) with doe in S by lia.
  unfold era_chk in S. destruct (doe <? 146097) eqn:E; [exact S | lia].
Qed.

(* ---------------------------------------------------------------- leap years are 400-periodic *)

Lemma is_leap_period y k : is_leap (y + 400 * k) = is_leap y.
Proof.
  unfold is_leap.
  replace ((y + 400 * k) mod 4) with (y mod 4) by lia.
  replace ((y + 400 * k) mod 100) with (y mod 100) by lia.
  replace ((y + 400 * k) mod 400) with (y mod 400) by lia.
  reflexivity.
Qed.

Lemma month_days_period y k m : month_days (y + 400 * k) m = month_days y m.
Proof. unfold month_days. rewrite is_leap_period. reflexivity. Qed.

(* ---------------------------------------------------------------- inversion, all day numbers *)

Lemma civil_from_days_inv z :
  let '(y, m, d) := civil_from_days z in
  days_from_civil y m d = z /\ 1 <= m <= 12 /\ 1 <= d <= month_days y m.
Proof.
  unfold civil_from_days.
  set (z' := z + 719468).
  assert (Hr : 0 <= z' mod 146097 < 146097) by (apply Z.mod_pos_bound; lia).
  pose proof (era_ok_all _ Hr) as E. unfold era_ok in E.
  destruct (civ_doe (z' mod 146097)) as [[yoe m] d].
  rewrite !andb_true_iff in E.
  destruct E as [[[[[[E1 E2] E3] E4] E5] E6] E7].
  set (c := if m <=? 2 then 1 else 0) in *.
  assert (Hc : c = 0 \/ c = 1) by (unfold c; destruct (m <=? 2); lia).
  split; [|split; [lia|]].
  - unfold days_from_civil.
    replace (if m <=? 2 then yoe + 400 * (z' / 146097) + c - 1 else yoe + 400 * (z' / 146097) + c)
      with (yoe + 400 * (z' / 146097)) by (unfold c; destruct (m <=? 2); lia).
    replace ((yoe + 400 * (z' / 146097)) / 400) with (z' / 146097) by lia.
    replace ((yoe + 400 * (z' / 146097)) mod 400) with yoe by lia.
    apply Z.eqb_eq in E7. rewrite E7. unfold z'. lia.
  - replace (yoe + 400 * (z' / 146097) + c) with (yoe + c + 400 * (z' / 146097)) by lia.
    rewrite month_days_period. lia.
Qed.

(* ---------------------------------------------------------------- the year range *)

Lemma month_days_le_31 y m : month_days y m <= 31.
Proof.
  unfold month_days.
  destruct m as [|p|p]; [lia| |lia].
  do 5 (try match goal with q : positive |- _ => destruct q end);
    cbv iota; try destruct (is_leap y); lia.
Qed.

Lemma days_from_civil_year y m d :
  1 <= m <= 12 -> 1 <= d <= 31 ->
  -354285 <= days_from_civil y m d <= 2932896 -> 1000 <= y <= 9999.
Proof.
  intros Hm Hd. unfold days_from_civil, doe_of.
  destruct (m <=? 2) eqn:E1; destruct (2 <? m) eqn:E2; try lia.
Qed.

Lemma civil_year_range z :
  MIN_TS <= z <= MAX_TS ->
  let '(y, m, d) := civil_from_days (z / 86400) in 1000 <= y <= 9999.
Proof.
  intro H. pose proof (civil_from_days_inv (z / 86400)) as I.
  destruct (civil_from_days (z / 86400)) as [[y m] d].
  destruct I as (I1 & I2 & I3).
  pose proof (month_days_le_31 y m).
  apply (days_from_civil_year y m d); [lia | lia |].
  rewrite I1. unfold MIN_TS, MAX_TS in H. lia.
Qed.

(* ---------------------------------------------------------------- digits *)

Lemma char_digit_digit_char d : 0 <= d <= 9 -> char_digit (digit_char d) = Some d.
Proof.
  intro H.
  assert (C : d = 0 \/ d = 1 \/ d = 2 \/ d = 3 \/ d = 4 \/ d = 5 \/ d = 6 \/ d = 7 \/ d = 8 \/ d = 9) by lia.
  repeat (destruct C as [-> | C]; [reflexivity|]). subst. reflexivity.
Qed.

Lemma num2_digits a b : 0 <= a <= 9 -> 0 <= b <= 9 -> num2 (digit_char a) (digit_char b) = Some (10 * a + b).
Proof. intros Ha Hb. unfold num2. rewrite !char_digit_digit_char by assumption. reflexivity. Qed.

Lemma num2_digits2 n : 0 <= n < 100 ->
  num2 (digit_char (n / 10 mod 10)) (digit_char (n mod 10)) = Some n.
Proof. intro H. rewrite num2_digits by lia. f_equal. lia. Qed.

Lemma num4_digits4 n : 0 <= n < 10000 ->
  num4 (digit_char (n / 1000 mod 10)) (digit_char (n / 100 mod 10))
       (digit_char (n / 10 mod 10)) (digit_char (n mod 10)) = Some n.
Proof. intro H. unfold num4. rewrite !num2_digits by lia. f_equal. lia. Qed.

(* ---------------------------------------------------------------- RFC 3339 round trip *)

Lemma parse_rfc_fields y m d h mi s :
  0 <= y < 10000 -> 0 <= m < 100 -> 0 <= d < 100 -> 0 <= h < 100 -> 0 <= mi < 100 -> 0 <= s < 100 ->
  parse_rfc (digits4 y ++ c_dash :: digits2 m ++ c_dash :: digits2 d ++ c_T ::
             digits2 h ++ c_colon :: digits2 mi ++ c_colon :: digits2 s ++ [c_Z])
  = if valid_fields y m d h mi s
    then Some (days_from_civil y m d * 86400 + h * 3600 + mi * 60 + s) else None.
Proof.
  intros Hy Hm Hd Hh Hmi Hs.
  unfold digits4, digits2. cbn [Datatypes.app]. unfold parse_rfc.
  change (byte_eqb c_dash c_dash) with true. change (byte_eqb c_T c_T) with true.
  change (byte_eqb c_colon c_colon) with true. cbn [andb].
  rewrite num4_digits4 by assumption. rewrite !num2_digits2 by assumption.
  change (parse_tail [c_Z]) with (Some (false, 0)).
  destruct (valid_fields y m d h mi s); [|reflexivity].
  cbn [andb]. f_equal. lia.
Qed.

Lemma parse_rfc_render z : MIN_TS <= z <= MAX_TS -> parse_rfc (render_rfc z) = Some z.
Proof.
  intro H. unfold render_rfc.
  pose proof (civil_from_days_inv (z / 86400)) as I.
  pose proof (civil_year_range z H) as Y.
  destruct (civil_from_days (z / 86400)) as [[y m] d].
  destruct I as (I1 & I2 & I3).
  pose proof (month_days_le_31 y m) as M31.
  assert (T : 0 <= z mod 86400 < 86400) by (apply Z.mod_pos_bound; lia).
  rewrite parse_rfc_fields by lia.
  assert (V : valid_fields y m d (z mod 86400 / 3600) (z mod 86400 mod 3600 / 60) (z mod 86400 mod 60) = true).
  { unfold valid_fields. rewrite !andb_true_iff. repeat split; lia. }
  rewrite V, I1. f_equal. lia.
Qed.

(* ---------------------------------------------------------------- decimal numerals *)

Lemma uint_bytes_digits u : Forall (fun c => is_digit c = true) (uint_bytes u).
Proof. induction u; cbn [uint_bytes]; constructor; try assumption; reflexivity. Qed.

Lemma is_digit_not_space c : is_digit c = true -> py_space c = false.
Proof. destruct c; try reflexivity; intro H; vm_compute in H; discriminate H. Qed.

Lemma is_digit_not_us c : is_digit c = true -> byte_eqb c c_us = false.
Proof. destruct c; try reflexivity; intro H; vm_compute in H; discriminate H. Qed.

Lemma is_digit_push c u : is_digit c = true -> exists u', push_digit c u = Some u'.
Proof. destruct c; intro H; try (vm_compute in H; discriminate H); eexists; reflexivity. Qed.

Lemma rstrip_no_space s : Forall (fun c => py_space c = false) s -> rstrip_sp s = s.
Proof.
  induction 1 as [|c r Hc Hr IH]; [reflexivity|].
  cbn [rstrip_sp]. rewrite IH, Hc. destruct r; reflexivity.
Qed.

Lemma digits_us_uint u : digits_us true (uint_bytes u) = Some u.
Proof.
  induction u; cbn [uint_bytes digits_us]; try reflexivity;
    match goal with |- context [byte_eqb ?c c_us] => change (byte_eqb c c_us) with false end;
    cbv iota; rewrite IHu; reflexivity.
Qed.

Lemma digits_us_uint_nonnil u : u <> Nil -> digits_us false (uint_bytes u) = Some u.
Proof.
  destruct u; [congruence| | | | | | | | | |]; intros _; cbn [uint_bytes digits_us];
    match goal with |- context [byte_eqb ?c c_us] => change (byte_eqb c c_us) with false end;
    cbv iota; rewrite digits_us_uint; reflexivity.
Qed.

Lemma to_int_nonnil z : match Z.to_int z with Pos u | Neg u => u <> Nil end.
Proof.
  destruct z; cbn [Z.to_int]; try apply Unsigned.to_uint_nonnil. discriminate.
Qed.

Lemma uint_bytes_nonnil u : u <> Nil -> exists c r, uint_bytes u = c :: r /\ is_digit c = true.
Proof. destruct u; [congruence| | | | | | | | | |]; intros _; eexists; eexists; (split; [reflexivity|reflexivity]). Qed.

Lemma parse_int_dec z : parse_int (dec_of_Z z) = Ok z.
Proof.
  unfold dec_of_Z. pose proof (to_int_nonnil z) as NN. pose proof (DecimalZ.of_to z) as OT.
  destruct (Z.to_int z) as [u|u].
  - destruct (uint_bytes_nonnil u NN) as (c & r & E & Dc).
    pose proof (uint_bytes_digits u) as F.
    assert (Fs : Forall (fun c => py_space c = false) (uint_bytes u)).
    { eapply Forall_impl; [|exact F]. intros; apply is_digit_not_space; assumption. }
    unfold parse_int.
    assert (L : lstrip_sp (uint_bytes u) = uint_bytes u).
    { rewrite E. cbn [lstrip_sp]. rewrite (is_digit_not_space c Dc). reflexivity. }
    rewrite L, (rstrip_no_space _ Fs).
    rewrite E.
    assert (D1 : byte_eqb c c_dash = false) by (destruct c; try reflexivity; vm_compute in Dc; discriminate Dc).
    assert (D2 : byte_eqb c c_plus = false) by (destruct c; try reflexivity; vm_compute in Dc; discriminate Dc).
    rewrite D1, D2.
    replace (digits_us false (c :: r)) with (Some u)
      by (rewrite <- E; symmetry; apply digits_us_uint_nonnil; exact NN).
    rewrite OT. reflexivity.
  - destruct (uint_bytes_nonnil u NN) as (c & r & E & Dc).
    pose proof (uint_bytes_digits u) as F.
    assert (Fs : Forall (fun c => py_space c = false) (c_dash :: uint_bytes u)).
    { constructor; [reflexivity|]. eapply Forall_impl; [|exact F]. intros; apply is_digit_not_space; assumption. }
    unfold parse_int.
    assert (L : lstrip_sp (c_dash :: uint_bytes u) = c_dash :: uint_bytes u) by reflexivity.
    rewrite L, (rstrip_no_space _ Fs).
    change (byte_eqb c_dash c_dash) with true. cbv iota. rewrite E.
    replace (digits_us false (c :: r)) with (Some u)
      by (rewrite <- E; symmetry; apply digits_us_uint_nonnil; exact NN).
    rewrite OT. reflexivity.
Qed.

(* an RFC 3339 string has '-' as its fifth character *)
Lemma parse_rfc_some_shape s z : parse_rfc s = Some z -> exists a b c d r, s = a :: b :: c :: d :: c_dash :: r.
Proof.
  unfold parse_rfc.
  do 19 (destruct s as [|? s]; [discriminate|]).
  match goal with |- context [byte_eqb ?c1 c_dash && _] => destruct (byte_eqb c1 c_dash) eqn:E end.
  - apply byte_eqb_spec in E. subst. intros _. repeat eexists.
  - cbn [andb]. discriminate.
Qed.

Lemma dash_not_digit : is_digit c_dash = false.
Proof. reflexivity. Qed.

Lemma parse_rfc_dec z : parse_rfc (dec_of_Z z) = None.
Proof.
  destruct (parse_rfc (dec_of_Z z)) as [w|] eqn:P; [|reflexivity]. exfalso.
  apply parse_rfc_some_shape in P. destruct P as (a & b & c & d & r & E).
  unfold dec_of_Z in E.
  destruct (Z.to_int z) as [u|u]; pose proof (uint_bytes_digits u) as F.
  - rewrite E in F. do 4 (apply Forall_inv_tail in F). apply Forall_inv in F.
    rewrite dash_not_digit in F. discriminate.
  - injection E as _ E. rewrite E in F. do 3 (apply Forall_inv_tail in F). apply Forall_inv in F.
    rewrite dash_not_digit in F. discriminate.
Qed.

(* ---------------------------------------------------------------- the two text forms *)

Lemma parse_ts_render z : MIN_TS <= z <= MAX_TS -> parse_ts (render_rfc z) = Ok z.
Proof. intro H. unfold parse_ts. rewrite parse_rfc_render by assumption. reflexivity. Qed.

Lemma parse_ts_dec z : parse_ts (dec_of_Z z) = Ok z.
Proof. unfold parse_ts. rewrite parse_rfc_dec. apply parse_int_dec. Qed.

Lemma in_rfc_range_spec z : in_rfc_range z = true <-> MIN_TS <= z <= MAX_TS.
Proof. unfold in_rfc_range. rewrite andb_true_iff. lia. Qed.

Lemma parse_format_timestamp z : parse_ts (format_timestamp z) = Ok z.
Proof.
  unfold format_timestamp. destruct (in_rfc_range z) eqn:E.
  - apply parse_ts_render, in_rfc_range_spec, E.
  - apply parse_ts_dec.
Qed.

(* the string form is used exactly for the years 1000..9999 *)
Lemma format_is_rfc_iff_year z :
  in_rfc_range z = true <-> let '(y, _, _) := civil_from_days (z / 86400) in 1000 <= y <= 9999.
Proof.
  rewrite in_rfc_range_spec. split.
  - apply civil_year_range.
  - pose proof (civil_from_days_inv (z / 86400)) as I.
    destruct (civil_from_days (z / 86400)) as [[y m] d].
    destruct I as (I1 & I2 & I3). intro Y.
    pose proof (month_days_le_31 y m).
    assert (B : -354285 <= days_from_civil y m d <= 2932896).
    { unfold days_from_civil, doe_of. destruct (m <=? 2) eqn:E1; destruct (2 <? m) eqn:E2; lia. }
    rewrite I1 in B. unfold MIN_TS, MAX_TS. lia.
Qed.
