(* Proofs/Tickets_proofs.v — lemmas about Michelson/Tickets.v *)
From Coq Require Import List ZArith Bool Lia ZifyBool.
From Coq.Strings Require Import Byte.
From PV Require Import Base.Bytes Base.Result Michelson.Tickets.
Import ListNotations.
Local Open Scope Z_scope.

(* ---- induction principles for the nested inductives ---- *)
Section val_ind'.
  Variable P : val -> Prop.
  Hypothesis Hnat : forall z, P (VNat z).
  Hypothesis Hstr : forall s, P (VStr s).
  Hypothesis Haddr : forall a, P (VAddr a).
  Hypothesis Htick : forall t c a, P (VTicket t c a).
  Hypothesis Hpair : forall a b, P a -> P b -> P (VPair a b).
  Hypothesis Hsome : forall v, P v -> P (VSome v).
  Hypothesis Hnone : forall t, P (VNone t).
  Hypothesis Hlist : forall t l, Forall P l -> P (VList t l).
  Hypothesis Hbool : forall b, P (VBool b).
  Hypothesis Hmap : forall big vt m, Forall (fun kv => P (snd kv)) m -> P (VMap big vt m).
  Hypothesis Hlam : forall a r caps body, Forall P caps -> P (VLam a r caps body).
  Hypothesis Hleft : forall v tr, P v -> P (VLeft v tr).
  Hypothesis Hright : forall tl v, P v -> P (VRight tl v).
  Fixpoint val_ind' (v : val) : P v :=
    match v with
    | VNat z => Hnat z | VStr s => Hstr s | VAddr a => Haddr a
    | VTicket t c a => Htick t c a
    | VPair a b => Hpair a b (val_ind' a) (val_ind' b)
    | VSome x => Hsome x (val_ind' x)
    | VNone t => Hnone t
    | VList t l => Hlist t l ((fix go (l : list val) : Forall P l :=
                                 match l with
                                 | [] => Forall_nil P
                                 | x :: r => Forall_cons x (val_ind' x) (go r)
                                 end) l)
    | VBool b => Hbool b
    | VMap big vt m => Hmap big vt m ((fix go (m : list (Z * val)) : Forall (fun kv => P (snd kv)) m :=
                                          match m with
                                          | [] => Forall_nil _
                                          | kv :: r => Forall_cons kv (match kv as kv0 return P (snd kv0) with (_, x) => val_ind' x end) (go r)
                                          end) m)
    | VLam a r caps body => Hlam a r caps body ((fix go (l : list val) : Forall P l :=
                                                   match l with
                                                   | [] => Forall_nil P
                                                   | x :: r0 => Forall_cons x (val_ind' x) (go r0)
                                                   end) caps)
    | VLeft x tr => Hleft x tr (val_ind' x)
    | VRight tl x => Hright tl x (val_ind' x)
    end.
End val_ind'.

Section instr_ind'.
  Variable P : instr -> Prop.
  Hypothesis Hbase : forall i, (forall a b, i <> IF_NONE a b) -> (forall a b, i <> IF_CONS a b) -> (forall a, i <> ITER a) -> (forall a, i <> MAP a) -> P i.
  Hypothesis Hifnone : forall a b, Forall P a -> Forall P b -> P (IF_NONE a b).
  Hypothesis Hifcons : forall a b, Forall P a -> Forall P b -> P (IF_CONS a b).
  Hypothesis Hiter : forall a, Forall P a -> P (ITER a).
  Hypothesis Hmap : forall a, Forall P a -> P (MAP a).
  Fixpoint instr_ind' (i : instr) : P i.
  Proof.
    pose (go := fix go (l : list instr) : Forall P l :=
                  match l with
                  | [] => Forall_nil P
                  | x :: r => Forall_cons x (instr_ind' x) (go r)
                  end).
    destruct i.
    all: try (apply Hbase; intros; discriminate).
    - apply Hifnone; apply go.
    - apply Hifcons; apply go.
    - apply Hiter; apply go.
    - apply Hmap; apply go.
  Defined.
End instr_ind'.

(* ---- boolean equalities ---- *)
Lemma cty_eqb_eq a b : cty_eqb a b = true <-> a = b.
Proof.
  revert b. induction a; intros []; simpl; split; intros H; try reflexivity; try discriminate.
  - f_equal. apply IHa. assumption.
  - injection H as ->. apply IHa. reflexivity.
  - apply andb_prop in H. destruct H as [H1 H2]. f_equal; [apply IHa1 | apply IHa2]; assumption.
  - injection H as -> ->. apply andb_true_intro. split; [apply IHa1 | apply IHa2]; reflexivity.
  - apply andb_prop in H. destruct H as [H1 H2]. f_equal; [apply IHa1 | apply IHa2]; assumption.
  - injection H as -> ->. apply andb_true_intro. split; [apply IHa1 | apply IHa2]; reflexivity.
Qed.

Lemma ty_eqb_eq a b : ty_eqb a b = true <-> a = b.
Proof.
  revert b. induction a; intros []; simpl; split; intros H; try reflexivity; try discriminate.
  - f_equal. apply cty_eqb_eq. assumption.
  - injection H as ->. apply cty_eqb_eq. reflexivity.
  - apply andb_prop in H. destruct H as [H1 H2]. f_equal; [apply IHa1 | apply IHa2]; assumption.
  - injection H as -> ->. apply andb_true_intro. split; [apply IHa1 | apply IHa2]; reflexivity.
  - f_equal. apply IHa. assumption.
  - injection H as ->. apply IHa. reflexivity.
  - f_equal. apply IHa. assumption.
  - injection H as ->. apply IHa. reflexivity.
  - apply andb_prop in H. destruct H as [H1 H2]. apply Bool.eqb_prop in H1. subst. f_equal. apply IHa. assumption.
  - injection H as -> ->. apply andb_true_intro. split; [apply Bool.eqb_reflx | apply IHa; reflexivity].
  - apply andb_prop in H. destruct H as [H1 H2]. f_equal; [apply IHa1 | apply IHa2]; assumption.
  - injection H as -> ->. apply andb_true_intro. split; [apply IHa1 | apply IHa2]; reflexivity.
  - apply andb_prop in H. destruct H as [H1 H2]. f_equal; [apply IHa1 | apply IHa2]; assumption.
  - injection H as -> ->. apply andb_true_intro. split; [apply IHa1 | apply IHa2]; reflexivity.
Qed.

Lemma cval_eqb_eq a b : cval_eqb a b = true <-> a = b.
Proof.
  revert b. induction a; intros []; simpl; split; intros H; try discriminate.
  - f_equal. lia.
  - injection H as ->. lia.
  - f_equal. apply bytes_eqb_spec. assumption.
  - injection H as ->. apply bytes_eqb_spec. reflexivity.
  - f_equal. apply cty_eqb_eq. assumption.
  - injection H as ->. apply cty_eqb_eq. reflexivity.
  - f_equal. apply IHa. assumption.
  - injection H as ->. apply IHa. reflexivity.
  - apply andb_prop in H. destruct H as [H1 H2]. f_equal; [apply IHa1 | apply IHa2]; assumption.
  - injection H as -> ->. apply andb_true_intro. split; [apply IHa1 | apply IHa2]; reflexivity.
  - apply andb_prop in H. destruct H as [H1 H2]. f_equal; [apply IHa; assumption | apply cty_eqb_eq; assumption].
  - injection H as -> ->. apply andb_true_intro. split; [apply IHa; reflexivity | apply cty_eqb_eq; reflexivity].
  - apply andb_prop in H. destruct H as [H1 H2]. f_equal; [apply cty_eqb_eq; assumption | apply IHa; assumption].
  - injection H as -> ->. apply andb_true_intro. split; [apply IHa; reflexivity | apply cty_eqb_eq; reflexivity].
Qed.

Lemma key_eqb_eq a b : key_eqb a b = true <-> a = b.
Proof.
  destruct a as [a1 a2], b as [b1 b2]. unfold key_eqb. simpl. split; intros H.
  - apply andb_prop in H. destruct H as [H1 H2]. f_equal; [apply bytes_eqb_spec | apply cval_eqb_eq]; assumption.
  - injection H as -> ->. apply andb_true_intro. split; [apply bytes_eqb_spec | apply cval_eqb_eq]; reflexivity.
Qed.

(* ---- mass / positivity of lists ---- *)
Lemma mass_list k t l : mass k (VList t l) = stack_mass k l.
Proof. induction l as [|x r IH]; [reflexivity|]. cbn [mass stack_mass] in *. rewrite IH. reflexivity. Qed.

Lemma pos_list t l : tickets_pos (VList t l) = stack_pos l.
Proof. induction l as [|x r IH]; [reflexivity|]. cbn [tickets_pos stack_pos forallb] in *. rewrite IH. reflexivity. Qed.

Fixpoint map_mass (k : key) (m : list (Z * val)) : Z :=
  match m with [] => 0 | kv :: r => mass k (snd kv) + map_mass k r end.

Lemma mass_map k big vt m : mass k (VMap big vt m) = map_mass k m.
Proof. induction m as [|[k0 x] r IH]; [reflexivity|]. cbn [mass map_mass snd] in *. rewrite IH. reflexivity. Qed.

Lemma pos_map big vt m : tickets_pos (VMap big vt m) = forallb (fun kv => tickets_pos (snd kv)) m.
Proof. induction m as [|[k0 x] r IH]; [reflexivity|]. cbn [tickets_pos forallb snd] in *. rewrite IH. reflexivity. Qed.

(* ---- well-typed values: list elements have the declared type ---- *)
Fixpoint cval_wf (c : cval) : bool :=
  match c with
  | CN z => 0 <=? z
  | CSome x => cval_wf x
  | CPairV a b => cval_wf a && cval_wf b
  | CLeft x _ | CRight _ x => cval_wf x
  | _ => true
  end.

Fixpoint wt (v : val) : bool :=
  match v with
  | VNat z => 0 <=? z
  | VTicket _ c _ => cval_wf c
  | VPair a b => wt a && wt b
  | VSome x => wt x
  | VList t l => (fix go (l : list val) : bool :=
                    match l with [] => true | x :: r => ty_eqb t (type_of x) && wt x && go r end) l
  | VMap _ vt m => (fix go (m : list (Z * val)) : bool :=
                      match m with [] => true | (k, x) :: r => (0 <=? k) && ty_eqb vt (type_of x) && wt x && go r end) m
  | VLeft x _ | VRight _ x => wt x
  | VLam _ _ caps _ => (fix go (l : list val) : bool := match l with [] => true | x :: r => wt x && go r end) caps
  | _ => true
  end.

Definition wt_stack (s : list val) : bool := forallb wt s.

Lemma wt_list t l : wt (VList t l) = forallb (fun x => ty_eqb t (type_of x) && wt x) l.
Proof. induction l as [|x r IH]; [reflexivity|]. cbn [wt forallb] in *. rewrite IH. reflexivity. Qed.

Definition entry_ok (vt : ty) (kv : Z * val) : bool := (0 <=? fst kv) && ty_eqb vt (type_of (snd kv)) && wt (snd kv).

Lemma wt_map big vt m : wt (VMap big vt m) = forallb (entry_ok vt) m.
Proof. induction m as [|[k0 x] r IH]; [reflexivity|]. cbn [wt forallb] in *. rewrite IH. reflexivity. Qed.

Lemma wt_lam a r caps body : wt (VLam a r caps body) = forallb wt caps.
Proof. induction caps as [|x l IH]; [reflexivity|]. cbn [wt forallb] in *. rewrite IH. reflexivity. Qed.

Lemma wt_list_forall t l : wt (VList t l) = true -> forallb wt l = true.
Proof.
  rewrite wt_list. induction l as [|y r IH]; intros H; [reflexivity|].
  cbn [forallb] in *. apply andb_prop in H. destruct H as [Hy Hr]. apply andb_prop in Hy. destruct Hy as [_ Hy].
  rewrite Hy, (IH Hr). reflexivity.
Qed.

(* a duplicable, well-typed value contains no ticket *)
Lemma duplicable_mass0 k v : wt v = true -> duplicable (type_of v) = true -> mass k v = 0.
Proof.
  induction v as [| | | | a b IHa IHb | x IH | | t l IH | | big vt m IHm | la lr caps lbody IHc | lx ltr IHl | rtl rx IHr] using val_ind'; intros Hwt Hd; try reflexivity.
  - discriminate.
  - cbn [wt type_of duplicable mass] in *. apply andb_prop in Hwt, Hd. destruct Hwt, Hd.
    rewrite IHa, IHb by assumption. reflexivity.
  - cbn [wt type_of duplicable mass] in *. apply IH; assumption.
  - rewrite mass_list. rewrite wt_list in Hwt. cbn [type_of duplicable] in Hd.
    induction l as [|x r IHr]; [reflexivity|].
    cbn [forallb stack_mass] in *. inversion IH as [|? ? Hx Hr]; subst.
    apply andb_prop in Hwt. destruct Hwt as [Hx' Hr']. apply andb_prop in Hx'. destruct Hx' as [Ht Hw].
    apply ty_eqb_eq in Ht. rewrite Hx; [|assumption | rewrite <- Ht; assumption].
    rewrite IHr by assumption. reflexivity.
  - rewrite mass_map. rewrite wt_map in Hwt. cbn [type_of duplicable] in Hd.
    induction m as [|[k0 x] r IHr]; [reflexivity|].
    cbn [forallb map_mass snd] in *. inversion IHm as [|? ? Hx Hr]; subst. cbn [snd] in Hx.
    apply andb_prop in Hwt. destruct Hwt as [Hx' Hr']. unfold entry_ok in Hx'. cbn [fst snd] in Hx'.
    apply andb_prop in Hx'. destruct Hx' as [Hx'' Hw]. apply andb_prop in Hx''. destruct Hx'' as [_ Ht].
    apply ty_eqb_eq in Ht. rewrite Hx; [|assumption | rewrite <- Ht; assumption]. rewrite IHr by assumption. reflexivity.
  - cbn [wt type_of duplicable mass] in *. apply andb_prop in Hd. destruct Hd as [D1 D2]. apply IHl; assumption.
  - cbn [wt type_of duplicable mass] in *. apply andb_prop in Hd. destruct Hd as [D1 D2]. apply IHr; assumption.
Qed.

(* ---- non-negativity ---- *)
Lemma mass_nonneg k v : tickets_pos v = true -> 0 <= mass k v.
Proof.
  induction v as [| | | t c a | a b IHa IHb | x IH | | t l IH | | big vt m IHm | la lr caps lbody IHc | lx ltr IHl | rtl rx IHr] using val_ind'; intros Hp; try (cbn [mass]; lia).
  - cbn [tickets_pos mass] in *. destruct (key_eqb k (t, c)); lia.
  - cbn [tickets_pos mass] in *. apply andb_prop in Hp. destruct Hp. specialize (IHa ltac:(assumption)).
    specialize (IHb ltac:(assumption)). lia.
  - cbn [tickets_pos mass] in *. apply IH. exact Hp.
  - rewrite mass_list. rewrite pos_list in Hp.
    induction l as [|x r IHr]; [simpl; lia|].
    cbn [stack_pos forallb stack_mass] in *. inversion IH as [|? ? Hx Hr]; subst.
    apply andb_prop in Hp. destruct Hp as [Hp1 Hp2].
    specialize (Hx Hp1). specialize (IHr Hr Hp2). lia.
  - rewrite mass_map. rewrite pos_map in Hp.
    induction m as [|[k0 x] r IHr]; [simpl; lia|].
    cbn [forallb map_mass snd] in *. inversion IHm as [|? ? Hx Hr]; subst. cbn [snd] in Hx.
    apply andb_prop in Hp. destruct Hp as [Hp1 Hp2]. specialize (Hx Hp1). specialize (IHr Hr Hp2). lia.
  - cbn [tickets_pos mass] in *. apply IHl. exact Hp.
  - cbn [tickets_pos mass] in *. apply IHr. exact Hp.
Qed.

Lemma stack_mass_nonneg k s : stack_pos s = true -> 0 <= stack_mass k s.
Proof.
  induction s as [|x r IH]; intros Hp; [simpl; lia|].
  cbn [stack_pos forallb stack_mass] in *. apply andb_prop in Hp. destruct Hp as [H1 H2].
  pose proof (mass_nonneg k x H1). specialize (IH H2). lia.
Qed.

(* ---- DIG / DUG / DUP n move or read, never create ---- *)
Lemma dig_mass k n : forall s x r, dig n s = Some (x, r) -> stack_mass k s = mass k x + stack_mass k r.
Proof.
  induction n as [|n IH]; intros [|y s] x r H; simpl in H; try discriminate.
  - injection H as <- <-. reflexivity.
  - destruct (dig n s) as [[y' r']|] eqn:E; [|discriminate]. injection H as <- <-.
    cbn [stack_mass]. rewrite (IH _ _ _ E). lia.
Qed.

Lemma dig_forallb (f : val -> bool) n : forall s x r, dig n s = Some (x, r) -> forallb f s = f x && forallb f r.
Proof.
  induction n as [|n IH]; intros [|y s] x r H; simpl in H; try discriminate.
  - injection H as <- <-. reflexivity.
  - destruct (dig n s) as [[y' r']|] eqn:E; [|discriminate]. injection H as <- <-.
    cbn [forallb]. rewrite (IH _ _ _ E). destruct (f y), (f y'); reflexivity.
Qed.

Lemma dug_mass k n : forall x s r, dug n x s = Some r -> stack_mass k r = mass k x + stack_mass k s.
Proof.
  induction n as [|n IH]; intros x s r H.
  - simpl in H. injection H as <-. reflexivity.
  - destruct s as [|y s]; simpl in H; [discriminate|].
    destruct (dug n x s) as [r'|] eqn:E; [|discriminate]. injection H as <-.
    cbn [stack_mass]. rewrite (IH _ _ _ E). lia.
Qed.

Lemma dug_forallb (f : val -> bool) n : forall x s r, dug n x s = Some r -> forallb f r = f x && forallb f s.
Proof.
  induction n as [|n IH]; intros x s r H.
  - simpl in H. injection H as <-. reflexivity.
  - destruct s as [|y s]; simpl in H; [discriminate|].
    destruct (dug n x s) as [r'|] eqn:E; [|discriminate]. injection H as <-.
    cbn [forallb]. rewrite (IH _ _ _ E). destruct (f y), (f x); reflexivity.
Qed.

Lemma nth_error_forallb (f : val -> bool) n : forall s x, nth_error s n = Some x -> forallb f s = true -> f x = true.
Proof.
  induction n as [|n IH]; intros [|y s] x H Hf; simpl in H; try discriminate; cbn [forallb] in Hf;
    apply andb_prop in Hf; destruct Hf as [H1 H2].
  - injection H as <-. assumption.
  - eapply IH; eassumption.
Qed.

(* ---- the invariant ---- *)
Definition ok_stack (s : list val) : bool := wt_stack s && stack_pos s.

Definition le_state (st st' : state) : Prop :=
  forall k, stack_mass k (stk st') + ledger_sum k (minted st) <= stack_mass k (stk st) + ledger_sum k (minted st')
            /\ ledger_sum k (minted st) <= ledger_sum k (minted st').

Definition preserves (f : state -> result state) : Prop :=
  forall st st', ok_stack (stk st) = true -> f st = Ok st' -> ok_stack (stk st') = true /\ le_state st st'.

Lemma le_state_refl st : le_state st st.
Proof. intros k. lia. Qed.

Lemma le_state_trans a b c : le_state a b -> le_state b c -> le_state a c.
Proof. intros H1 H2 k. specialize (H1 k). specialize (H2 k). lia. Qed.

Lemma run_with_preserves (stp : instr -> state -> result state) p :
  Forall (fun i => preserves (stp i)) p -> preserves (run_with stp p).
Proof.
  induction 1 as [|i p Hi Hp IH]; intros st st' Hok Hrun; simpl in Hrun.
  - injection Hrun as <-. split; [assumption | apply le_state_refl].
  - destruct (stp i st) as [st1|] eqn:E; [|discriminate].
    destruct (Hi st st1 Hok E) as [Hok1 Hle1].
    destruct (IH st1 st' Hok1 Hrun) as [Hok' Hle']. split; [assumption | eapply le_state_trans; eassumption].
Qed.

Ltac pose_nonneg k :=
  repeat match goal with
         | x : val |- _ =>
             lazymatch goal with
             | H : tickets_pos x = true -> 0 <= mass k x |- _ => fail
             | _ => pose proof (mass_nonneg k x)
             end
         | s : list val |- _ =>
             lazymatch goal with
             | H : stack_pos s = true -> 0 <= stack_mass k s |- _ => fail
             | _ => pose proof (stack_mass_nonneg k s)
             end
         end.

Ltac destruct_matches H :=
  repeat match type of H with
         | context [match ?x with _ => _ end] =>
             lazymatch x with
             | context [match _ with _ => _ end] => fail
             | _ => destruct x eqn:?; try discriminate H
             end
         end.

Ltac norm :=
  unfold ok_stack, wt_stack, stack_pos, with_stk in *;
  cbn [stk minted self forallb wt cval_wf tickets_pos stack_mass mass ledger_sum type_of fst snd] in *;
  rewrite ?mass_list, ?pos_list, ?wt_list, ?mass_map, ?pos_map, ?wt_map in *;
  cbn [stk minted self forallb wt cval_wf tickets_pos stack_mass mass ledger_sum type_of fst snd] in *.

Lemma cval_ok c : cval_wf c = true -> wt (val_of_cval c) = true /\ tickets_pos (val_of_cval c) = true.
Proof.
  induction c as [z|x|t|x IH|a IHa b IHb|x IH t|t x IH]; cbn [cval_wf val_of_cval wt tickets_pos]; intros H; try (split; [exact H || reflexivity | reflexivity]).
  - apply IH. exact H.
  - apply andb_prop in H. destruct H as [H1 H2]. destruct (IHa H1) as [A1 A2]. destruct (IHb H2) as [B1 B2].
    rewrite A1, A2, B1, B2. split; reflexivity.
  - apply IH. exact H.
  - apply IH. exact H.
Qed.

Lemma cval_mass k c : mass k (val_of_cval c) = 0.
Proof.
  induction c as [z|x|t|x IH|a IHa b IHb|x IH t|t x IH]; cbn [val_of_cval mass]; try reflexivity.
  - exact IH.
  - rewrite IHa, IHb. reflexivity.
  - exact IH.
  - exact IH.
Qed.

(* a value accepted as ticket contents holds no ticket, and its contents are well-formed when it is *)
Lemma content_of_facts k v : forall c, content_of v = Some c ->
  mass k v = 0 /\ (wt v = true -> cval_wf c = true).
Proof.
  induction v as [z|x|a|t0 c0 a0|a b IHa IHb|x IH|t|t l IH|b0|big vt m IHm|la lr caps lbody IHc | lx ltr IHl | rtl rx IHr] using val_ind'; intros c H; cbn [content_of] in H; try discriminate.
  - injection H as <-. split; [reflexivity | intros W; exact W].
  - injection H as <-. split; [reflexivity | reflexivity].
  - destruct (content_of a) as [ca|] eqn:Ea; [|discriminate]. destruct (content_of b) as [cb|] eqn:Eb; [|discriminate].
    injection H as <-. destruct (IHa ca eq_refl) as [A1 A2]. destruct (IHb cb eq_refl) as [B1 B2].
    cbn [mass wt cval_wf]. rewrite A1, B1. split; [reflexivity|]. intros W. apply andb_prop in W. destruct W as [W1 W2].
    rewrite (A2 W1), (B2 W2). reflexivity.
  - destruct (content_of x) as [cx|] eqn:Ex; [|discriminate]. injection H as <-.
    destruct (IH cx eq_refl) as [A1 A2]. cbn [mass wt cval_wf]. split; assumption.
  - destruct (cty_of_ty t) as [ct|]; [|discriminate]. injection H as <-. split; reflexivity.
  - destruct (content_of lx) as [cx|] eqn:Ex; [|discriminate]. destruct (cty_of_ty ltr) as [ct|]; [|discriminate]. injection H as <-.
    destruct (IHl cx eq_refl) as [A1 A2]. cbn [mass wt cval_wf]. split; assumption.
  - destruct (cty_of_ty rtl) as [ct|]; [|discriminate]. destruct (content_of rx) as [cx|] eqn:Ex; [|discriminate]. injection H as <-.
    destruct (IHr cx eq_refl) as [A1 A2]. cbn [mass wt cval_wf]. split; assumption.
Qed.

Ltac split_ands :=
  repeat match goal with
         | H : _ && _ = true |- _ => apply andb_prop in H; destruct H
         end.

Ltac solve_bool :=
  repeat (apply andb_true_intro; split); try assumption; try reflexivity; try lia.

Ltac nonneg_facts k :=
  repeat match goal with
         | H : tickets_pos ?x = true |- _ =>
             lazymatch goal with
             | _ : 0 <= mass k x |- _ => fail
             | _ => pose proof (mass_nonneg k x H)
             end
         | H : forallb tickets_pos ?s = true |- _ =>
             lazymatch goal with
             | _ : 0 <= stack_mass k s |- _ => fail
             | _ => pose proof (stack_mass_nonneg k s H)
             end
         end.

Ltac key_cases :=
  repeat match goal with
         | |- context [if key_eqb ?a ?b then _ else _] => destruct (key_eqb a b) eqn:?
         end.

(* the four ticket instructions, by hand *)
Lemma TICKET_preserves f : preserves (step (S f) TICKET).
Proof.
  intros [sf s m] st' Hok H. cbn [step stk] in H.
  destruct s as [|item s]; [discriminate|]. destruct s as [|am s]; [discriminate|]. destruct am; try discriminate.
  destruct (content_of item) as [c|] eqn:Ec; [|discriminate].
  assert (Hwc : wt item = true -> cval_wf c = true) by (apply (content_of_facts (sf, c) item c Ec)).
  destruct (z >? 0) eqn:Ez; injection H as <-; norm; split_ands.
  all: split; [norm; solve_bool; auto | intros k; destruct (content_of_facts k item c Ec) as [Hm _]; nonneg_facts k; norm; key_cases; lia].
Qed.

Lemma READ_TICKET_preserves f : preserves (step (S f) READ_TICKET).
Proof.
  intros [sf s m] st' Hok H. cbn [step stk] in H.
  destruct_matches H; injection H as <-; norm; split_ands.
  destruct (cval_ok content ltac:(assumption)) as [C1 C2].
  split; [rewrite C1, C2; solve_bool | intros k; nonneg_facts k; norm; rewrite (cval_mass k content); key_cases; lia].
Qed.

Lemma SPLIT_TICKET_preserves f : preserves (step (S f) SPLIT_TICKET).
Proof.
  intros [sf s m] st' Hok H. cbn [step stk] in H. unfold ticket_split in H.
  destruct_matches H; injection H as <-; norm; split_ands.
  all: repeat match goal with H : Some _ = Some _ |- _ => injection H as <- <- end.
  all: split; [norm; solve_bool | intros k; nonneg_facts k; norm; key_cases; try lia].
Qed.

Lemma JOIN_TICKETS_preserves f : preserves (step (S f) JOIN_TICKETS).
Proof.
  intros [sf s m] st' Hok H. cbn [step stk] in H. unfold ticket_join in H.
  destruct_matches H; injection H as <-; norm; split_ands.
  all: repeat match goal with H : Some _ = Some _ |- _ => injection H as <- end.
  - split; [norm; solve_bool | intros k; nonneg_facts k; norm; key_cases; lia].
  - match goal with H : negb (bytes_eqb ?a ?b) || negb (cval_eqb ?c ?d) = false |- _ =>
      apply orb_false_elim in H; destruct H as [E1 E2];
      apply negb_false_iff in E1, E2; apply bytes_eqb_spec in E1; apply cval_eqb_eq in E2; subst
    end.
    split; [norm; solve_bool | intros k; nonneg_facts k; norm; key_cases; lia].
Qed.

Ltac dig_dug_rewrite :=
  repeat match goal with
         | H : dig ?n ?s = Some (?x, ?r), Hok : context [forallb _ ?s] |- _ =>
             rewrite (dig_forallb wt n s x r H), (dig_forallb tickets_pos n s x r H) in Hok
         end;
  repeat match goal with
         | H : dug ?n ?x ?s = Some ?r |- context [forallb _ ?r] =>
             rewrite (dug_forallb wt n x s r H), (dug_forallb tickets_pos n x s r H)
         end.

Ltac nth_facts :=
  repeat match goal with
         | H : nth_error ?s ?n = Some ?x, Hw : forallb wt ?s = true, Hp : forallb tickets_pos ?s = true |- _ =>
             pose proof (nth_error_forallb wt n s x H Hw); pose proof (nth_error_forallb tickets_pos n s x H Hp);
             revert H
         end; intros.

Ltac mass_facts k :=
  repeat match goal with
         | H : dig ?n ?s = Some (?x, ?r) |- _ => pose proof (dig_mass k n s x r H); revert H
         | H : dug ?n ?x ?s = Some ?r |- _ => pose proof (dug_mass k n x s r H); revert H
         | H : duplicable (type_of ?v) = true, Hw : wt ?v = true |- _ => pose proof (duplicable_mass0 k v Hw H); revert H
         end; intros.


(* ---- finite maps ---- *)
Definition optmass (k : key) (o : option val) : Z := match o with Some v => mass k v | None => 0 end.

Lemma forallb_remove (f : Z * val -> bool) k m : forallb f m = true -> forallb f (map_remove k m) = true.
Proof.
  induction m as [|[k0 x] r IH]; intros H; [reflexivity|]. cbn [forallb map_remove] in *.
  apply andb_prop in H. destruct H as [H1 H2]. destruct (k =? k0); [apply IH; exact H2|].
  cbn [forallb]. rewrite H1, (IH H2). reflexivity.
Qed.

Lemma forallb_insert (f : Z * val -> bool) k v m : f (k, v) = true -> forallb f m = true -> forallb f (map_insert k v m) = true.
Proof.
  intros Hv. induction m as [|[k0 x] r IH]; intros H; cbn [map_insert forallb] in *.
  - rewrite Hv. reflexivity.
  - apply andb_prop in H. destruct H as [H1 H2]. destruct (k <? k0); cbn [forallb].
    + rewrite Hv, H1, H2. reflexivity.
    + rewrite H1, (IH H2). reflexivity.
Qed.

Lemma map_get_forallb (f : val -> bool) k m v :
  forallb (fun kv => f (snd kv)) m = true -> map_get k m = Some v -> f v = true.
Proof.
  induction m as [|[k0 x] r IH]; intros H G; cbn [map_get forallb snd] in *; [discriminate|].
  apply andb_prop in H. destruct H as [H1 H2]. destruct (k =? k0); [injection G as <-; exact H1 | apply IH; assumption].
Qed.

Lemma entry_ok_forallb vt m : forallb (entry_ok vt) m = true ->
  forallb (fun kv => ty_eqb vt (type_of (snd kv))) m = true /\ forallb (fun kv => wt (snd kv)) m = true.
Proof.
  induction m as [|[k0 x] r IH]; intros H; [split; reflexivity|]. cbn [forallb] in *.
  apply andb_prop in H. destruct H as [H1 H2]. unfold entry_ok in H1. cbn [fst snd] in *.
  apply andb_prop in H1. destruct H1 as [H1 Hw]. apply andb_prop in H1. destruct H1 as [_ Ht].
  destruct (IH H2) as [A B]. rewrite Ht, Hw, A, B. split; reflexivity.
Qed.

Lemma map_mass_insert k0 k v m : map_mass k0 (map_insert k v m) = mass k0 v + map_mass k0 m.
Proof.
  induction m as [|[k1 x] r IH]; cbn [map_insert map_mass snd]; [lia|].
  destruct (k <? k1); cbn [map_mass snd]; [lia | rewrite IH; lia].
Qed.

Lemma map_mass_nonneg k0 m : forallb (fun kv => tickets_pos (snd kv)) m = true -> 0 <= map_mass k0 m.
Proof.
  induction m as [|[k1 x] r IH]; intros H; cbn [map_mass forallb snd] in *; [lia|].
  apply andb_prop in H. destruct H as [H1 H2]. pose proof (mass_nonneg k0 x H1). specialize (IH H2). lia.
Qed.

Lemma optmass_nonneg k0 k m : forallb (fun kv => tickets_pos (snd kv)) m = true -> 0 <= optmass k0 (map_get k m).
Proof.
  intros H. destruct (map_get k m) as [v|] eqn:G; cbn [optmass]; [|lia].
  apply mass_nonneg. apply (map_get_forallb tickets_pos k m v H G).
Qed.

Lemma map_mass_remove k0 k m : forallb (fun kv => tickets_pos (snd kv)) m = true ->
  0 <= map_mass k0 (map_remove k m) /\ map_mass k0 (map_remove k m) + optmass k0 (map_get k m) <= map_mass k0 m.
Proof.
  induction m as [|[k1 x] r IH]; intros H; cbn [map_mass map_remove map_get forallb snd optmass] in *; [lia|].
  apply andb_prop in H. destruct H as [H1 H2]. pose proof (mass_nonneg k0 x H1). destruct (IH H2) as [A B].
  pose proof (map_mass_nonneg k0 r H2).
  destruct (k =? k1); cbn [map_mass snd optmass].
  - pose proof (optmass_nonneg k0 k r H2). lia.
  - lia.
Qed.

(* what a well-formed stack  VNat k :: ... :: VMap big vt m :: s  gives *)
Lemma opt_of_ok vt k m :
  forallb (entry_ok vt) m = true -> forallb (fun kv => tickets_pos (snd kv)) m = true ->
  wt (opt_of vt (map_get k m)) = true /\ tickets_pos (opt_of vt (map_get k m)) = true /\
  forall k0, mass k0 (opt_of vt (map_get k m)) = optmass k0 (map_get k m).
Proof.
  intros Hw Hp. destruct (entry_ok_forallb vt m Hw) as [_ Hw'].
  destruct (map_get k m) as [v|] eqn:G; cbn [opt_of wt tickets_pos mass optmass].
  - rewrite (map_get_forallb wt k m v Hw' G), (map_get_forallb tickets_pos k m v Hp G). repeat split.
  - repeat split.
Qed.

Lemma map_put_ok vt k v m : 0 <= k -> ty_eqb vt (type_of v) = true -> wt v = true -> tickets_pos v = true ->
  forallb (entry_ok vt) m = true -> forallb (fun kv => tickets_pos (snd kv)) m = true ->
  forallb (entry_ok vt) (map_put k v m) = true /\ forallb (fun kv => tickets_pos (snd kv)) (map_put k v m) = true.
Proof.
  intros Hk Ht Hw Hp Hm Hmp. unfold map_put. split.
  - apply forallb_insert; [unfold entry_ok; cbn [fst snd]; rewrite Ht, Hw; destruct (0 <=? k) eqn:E; [reflexivity | lia] | apply forallb_remove; exact Hm].
  - apply forallb_insert; [exact Hp | apply forallb_remove; exact Hmp].
Qed.

Ltac map_stack H :=
  cbn [step stk] in H; destruct_matches H; try (injection H as <-);
  unfold ok_stack, wt_stack, stack_pos, with_stk in *; cbn [stk minted self forallb] in *;
  rewrite ?wt_map, ?pos_map in *; cbn [wt tickets_pos] in *; split_ands.

Lemma EMPTY_MAP_preserves f big vt : preserves (step (S f) (EMPTY_MAP big vt)).
Proof.
  intros [sf s m0] st' Hok H. cbn [step stk] in H. injection H as <-. split.
  - unfold ok_stack, wt_stack, stack_pos, with_stk in *. cbn [stk forallb wt tickets_pos]. exact Hok.
  - intros k. unfold with_stk. cbn [stk minted stack_mass mass]. lia.
Qed.

Lemma UPDATE_preserves f : preserves (step (S f) UPDATE).
Proof.
  intros [sf s m0] st' Hok H. map_stack H.
  - (* Some v *)
    match goal with Ht : ty_eqb ?vt (type_of ?v) = true, Hm : forallb (entry_ok ?vt) ?m = true, Hp : forallb (fun kv => tickets_pos (snd kv)) ?m = true |- _ =>
      destruct (map_put_ok vt z v m ltac:(lia) Ht ltac:(assumption) ltac:(assumption) Hm Hp) as [A B] end.
    split; [rewrite A, B; solve_bool|].
    intros k. cbn [stk minted stack_mass]. rewrite !mass_map. cbn [mass]. unfold map_put. rewrite map_mass_insert.
    match goal with |- context [map_remove z ?m] => match goal with Hp : forallb (fun kv => tickets_pos (snd kv)) m = true |- _ =>
      destruct (map_mass_remove k z m Hp) as [R1 R2]; pose proof (optmass_nonneg k z m Hp) end end.
    nonneg_facts k. lia.
  - (* None *)
    match goal with Hm : forallb (entry_ok ?vt) ?m = true, Hp : forallb (fun kv => tickets_pos (snd kv)) ?m = true |- _ =>
      pose proof (forallb_remove _ z m Hm) as A; pose proof (forallb_remove _ z m Hp) as B end.
    split; [rewrite A, B; solve_bool|].
    intros k. cbn [stk minted stack_mass]. rewrite !mass_map. cbn [mass].
    match goal with |- context [map_remove z ?m] => match goal with Hp : forallb (fun kv => tickets_pos (snd kv)) m = true |- _ =>
      destruct (map_mass_remove k z m Hp) as [R1 R2]; pose proof (optmass_nonneg k z m Hp) end end.
    nonneg_facts k. lia.
Qed.

Lemma GET_AND_UPDATE_preserves f : preserves (step (S f) GET_AND_UPDATE).
Proof.
  intros [sf s m0] st' Hok H. map_stack H.
  - match goal with Ht : ty_eqb ?vt (type_of ?v) = true, Hm : forallb (entry_ok ?vt) ?m = true, Hp : forallb (fun kv => tickets_pos (snd kv)) ?m = true |- _ =>
      destruct (map_put_ok vt z v m ltac:(lia) Ht ltac:(assumption) ltac:(assumption) Hm Hp) as [A B];
      destruct (opt_of_ok vt z m Hm Hp) as (O1 & O2 & O3) end.
    split; [rewrite ?A, ?B, ?O1, ?O2; solve_bool|].
    intros k. cbn [stk minted stack_mass]. rewrite !mass_map. cbn [mass]. rewrite ?O3. unfold map_put. rewrite map_mass_insert.
    match goal with |- context [map_remove z ?m] => match goal with Hp : forallb (fun kv => tickets_pos (snd kv)) m = true |- _ =>
      destruct (map_mass_remove k z m Hp) as [R1 R2] end end.
    nonneg_facts k. lia.
  - match goal with Hm : forallb (entry_ok ?vt) ?m = true, Hp : forallb (fun kv => tickets_pos (snd kv)) ?m = true |- _ =>
      pose proof (forallb_remove _ z m Hm) as A; pose proof (forallb_remove _ z m Hp) as B;
      destruct (opt_of_ok vt z m Hm Hp) as (O1 & O2 & O3) end.
    split; [rewrite ?A, ?B, ?O1, ?O2; solve_bool|].
    intros k. cbn [stk minted stack_mass]. rewrite !mass_map. cbn [mass]. rewrite ?O3.
    match goal with |- context [map_remove z ?m] => match goal with Hp : forallb (fun kv => tickets_pos (snd kv)) m = true |- _ =>
      destruct (map_mass_remove k z m Hp) as [R1 R2] end end.
    nonneg_facts k. lia.
Qed.

Lemma MEM_preserves f : preserves (step (S f) MEM).
Proof.
  intros [sf s m0] st' Hok H. map_stack H.
  split; [solve_bool|]. intros k. cbn [stk minted stack_mass]. rewrite !mass_map. cbn [mass].
  match goal with Hp : forallb (fun kv => tickets_pos (snd kv)) ?m = true |- _ => pose proof (map_mass_nonneg k m Hp) end.
  nonneg_facts k. lia.
Qed.

(* GET hands out a copy: allowed only for duplicable value types, whose values hold no ticket *)
Lemma GET_preserves f : preserves (step (S f) GET).
Proof.
  intros [sf s m0] st' Hok H. map_stack H.
  match goal with Hm : forallb (entry_ok ?vt) ?m = true, Hp : forallb (fun kv => tickets_pos (snd kv)) ?m = true |- _ =>
    destruct (opt_of_ok vt z m Hm Hp) as (O1 & O2 & O3); destruct (entry_ok_forallb vt m Hm) as [Ht Hw'];
    pose proof (map_mass_nonneg (sf, CN 0) m Hp) end.
  split; [rewrite O1, O2; solve_bool|].
  intros k. cbn [stk minted stack_mass]. rewrite !mass_map. cbn [mass]. rewrite ?O3.
  match goal with Hp : forallb (fun kv => tickets_pos (snd kv)) ?m = true |- _ => pose proof (map_mass_nonneg k m Hp) end.
  assert (Hz : optmass k (map_get z m) = 0).
  { destruct (map_get z m) as [vv|] eqn:G; cbn [optmass]; [|reflexivity].
    apply duplicable_mass0; [apply (map_get_forallb wt z m vv Hw' G)|].
    pose proof (map_get_forallb (fun x => ty_eqb vt (type_of x)) z m vv Ht G) as E. apply ty_eqb_eq in E. rewrite <- E. assumption. }
  nonneg_facts k. lia.
Qed.


(* pushable values hold no ticket *)
Lemma pushable_facts v : wt v = true -> pushable (type_of v) = true ->
  tickets_pos v = true /\ forall k, mass k v = 0.
Proof.
  induction v as [| | | | a b IHa IHb | x IH | | t l IH | | big vt m IHm | la lr caps lbody IHc | lx ltr IHl | rtl rx IHr] using val_ind'; intros Hwt Hd;
    try (split; [reflexivity | intros k; reflexivity]).
  - discriminate.
  - cbn [wt type_of pushable] in *. apply andb_prop in Hwt, Hd. destruct Hwt as [W1 W2], Hd as [D1 D2].
    destruct (IHa W1 D1) as [A1 A2]. destruct (IHb W2 D2) as [B1 B2]. cbn [tickets_pos mass]. rewrite A1, B1. split; [reflexivity|].
    intros k. rewrite A2, B2. reflexivity.
  - cbn [wt type_of pushable tickets_pos mass] in *. apply IH; assumption.
  - rewrite wt_list in Hwt. cbn [type_of pushable] in Hd. rewrite pos_list.
    assert (G : stack_pos l = true /\ forall k, stack_mass k l = 0).
    { induction l as [|x r IHr]; [split; [reflexivity | intros; reflexivity]|].
      cbn [forallb stack_pos stack_mass] in *. inversion IH as [|? ? Hx Hr]; subst.
      apply andb_prop in Hwt. destruct Hwt as [Hx' Hr']. apply andb_prop in Hx'. destruct Hx' as [Ht Hw].
      apply ty_eqb_eq in Ht. destruct (Hx Hw ltac:(rewrite <- Ht; exact Hd)) as [X1 X2]. destruct (IHr Hr Hr') as [R1 R2].
      unfold stack_pos in R1. rewrite X1, R1. split; [reflexivity|]. intros k. rewrite X2, R2. reflexivity. }
    destruct G as [G1 G2]. split; [exact G1|]. intros k. rewrite mass_list. apply G2.
  - rewrite wt_map in Hwt. cbn [type_of pushable] in Hd. destruct big; [discriminate|]. rewrite pos_map.
    assert (G : forallb (fun kv => tickets_pos (snd kv)) m = true /\ forall k, map_mass k m = 0).
    { induction m as [|[k0 x] r IHr]; [split; [reflexivity | intros; reflexivity]|].
      cbn [forallb map_mass snd] in *. inversion IHm as [|? ? Hx Hr]; subst. cbn [snd] in Hx.
      apply andb_prop in Hwt. destruct Hwt as [Hx' Hr']. unfold entry_ok in Hx'. cbn [fst snd] in Hx'.
      apply andb_prop in Hx'. destruct Hx' as [Hx'' Hw]. apply andb_prop in Hx''. destruct Hx'' as [_ Ht].
      apply ty_eqb_eq in Ht. destruct (Hx Hw ltac:(rewrite <- Ht; exact Hd)) as [X1 X2]. destruct (IHr Hr Hr') as [R1 R2].
      rewrite X1, R1. split; [reflexivity|]. intros k. rewrite X2, R2. reflexivity. }
    destruct G as [G1 G2]. split; [exact G1|]. intros k. rewrite mass_map. apply G2.
  - cbn [wt type_of pushable tickets_pos mass] in *. apply andb_prop in Hd. destruct Hd as [D1 D2]. apply IHl; assumption.
  - cbn [wt type_of pushable tickets_pos mass] in *. apply andb_prop in Hd. destruct Hd as [D1 D2]. apply IHr; assumption.
Qed.

Lemma fold_caps_facts x caps : wt x = true -> tickets_pos x = true -> forallb wt caps = true ->
  forallb (fun c => pushable (type_of c)) caps = true ->
  wt (fold_right VPair x caps) = true /\ tickets_pos (fold_right VPair x caps) = true /\
  forall k, mass k (fold_right VPair x caps) = mass k x.
Proof.
  intros Wx Px. induction caps as [|c r IH]; intros Wc Pc; cbn [fold_right forallb] in *.
  - repeat split; assumption.
  - apply andb_prop in Wc, Pc. destruct Wc as [W1 W2], Pc as [P1 P2]. destruct (IH W2 P2) as (A & B & C).
    destruct (pushable_facts c W1 P1) as [F1 F2]. cbn [wt tickets_pos mass]. rewrite W1, A, F1, B. repeat split.
    intros k. rewrite F2, C. reflexivity.
Qed.

Lemma APPLY_preserves f : preserves (step (S f) APPLY).
Proof.
  intros [sf s m] st' Hok H. cbn [step stk] in H. destruct_matches H. injection H as <-.
  unfold ok_stack, wt_stack, stack_pos, with_stk in *. cbn [stk minted self forallb] in *. rewrite ?wt_lam in *.
  cbn [wt tickets_pos] in *. split_ands. split.
  - rewrite forallb_app. cbn [forallb]. solve_bool.
  - intros k. nonneg_facts k. cbn [stk minted stack_mass mass]. lia.
Qed.

Lemma step_base_preserves f i :
  (forall a b, i <> IF_NONE a b) -> (forall a b, i <> IF_CONS a b) -> (forall a, i <> ITER a) -> (forall a, i <> MAP a) ->
  i <> EXEC -> (forall a, i <> LOOP a) -> (forall a b, i <> IF_LEFT a b) -> preserves (step (S f) i).
Proof.
  intros N1 N2 N3 N4 N5 N6 N7.
  destruct i; try (exfalso; eapply N1; reflexivity); try (exfalso; eapply N2; reflexivity); try (exfalso; eapply N3; reflexivity);
    try (exfalso; eapply N4; reflexivity); try (exfalso; apply N5; reflexivity); try (exfalso; eapply N6; reflexivity); try (exfalso; eapply N7; reflexivity).
  all: try first [ apply TICKET_preserves | apply READ_TICKET_preserves | apply SPLIT_TICKET_preserves | apply JOIN_TICKETS_preserves
                 | apply EMPTY_MAP_preserves | apply UPDATE_preserves | apply GET_AND_UPDATE_preserves | apply MEM_preserves
                 | apply GET_preserves | apply APPLY_preserves ].
  all: intros [sf stk0 m] st' Hok H; cbn [step stk] in H.
  all: destruct_matches H.
  all: try (injection H as <-).
  all: norm; dig_dug_rewrite; split_ands; nth_facts.
  all: split; [norm; solve_bool | intros k; nonneg_facts k; mass_facts k; norm; lia].
Qed.

Lemma iter_with_preserves (stp : instr -> state -> result state) body :
  Forall (fun i => preserves (stp i)) body ->
  forall l st st', ok_stack (stk st) = true -> forallb wt l = true -> forallb tickets_pos l = true ->
    iter_with stp body l st = Ok st' ->
    ok_stack (stk st') = true /\
    forall k, stack_mass k (stk st') + ledger_sum k (minted st) <= stack_mass k (stk st) + stack_mass k l + ledger_sum k (minted st')
              /\ ledger_sum k (minted st) <= ledger_sum k (minted st').
Proof.
  intros Hbody. induction l as [|x r IH]; intros st st' Hok Hw Hp H; cbn [iter_with] in H.
  - injection H as <-. split; [assumption|]. intros k. cbn [stack_mass]. lia.
  - cbn [forallb] in Hw, Hp. apply andb_prop in Hw, Hp. destruct Hw as [Hw1 Hw2], Hp as [Hp1 Hp2].
    destruct (run_with stp body (with_stk st (x :: stk st))) as [st1|] eqn:E; [|discriminate].
    assert (Hok0 : ok_stack (stk (with_stk st (x :: stk st))) = true).
    { unfold ok_stack, wt_stack, stack_pos, with_stk in *. cbn [stk forallb]. apply andb_prop in Hok. destruct Hok as [O1 O2].
      rewrite Hw1, Hp1, O1, O2. reflexivity. }
    destruct (run_with_preserves stp body Hbody _ st1 Hok0 E) as [Hok1 Hle1].
    destruct (IH st1 st' Hok1 Hw2 Hp2 H) as [Hok' Hle']. split; [assumption|].
    intros k. specialize (Hle1 k). specialize (Hle' k). unfold with_stk in Hle1. cbn [stk minted stack_mass] in *. lia.
Qed.

Lemma stack_mass_app k a b : stack_mass k (a ++ b) = stack_mass k a + stack_mass k b.
Proof. induction a as [|x r IH]; [reflexivity|]. cbn [app stack_mass]. rewrite IH. lia. Qed.

Lemma map_with_preserves (stp : instr -> state -> result state) body :
  Forall (fun i => preserves (stp i)) body ->
  forall l st acc st' items, ok_stack (stk st) = true -> forallb wt l = true -> forallb tickets_pos l = true ->
    forallb wt acc = true -> forallb tickets_pos acc = true ->
    map_with stp body l st acc = Ok (st', items) ->
    ok_stack (stk st') = true /\ forallb wt items = true /\ forallb tickets_pos items = true /\
    forall k, stack_mass k (stk st') + stack_mass k items + ledger_sum k (minted st)
              <= stack_mass k (stk st) + stack_mass k acc + stack_mass k l + ledger_sum k (minted st')
              /\ ledger_sum k (minted st) <= ledger_sum k (minted st').
Proof.
  intros Hbody. induction l as [|x r IH]; intros st acc st' items Hok Hw Hp Haw Hap H; cbn [map_with] in H.
  - injection H as <- <-. repeat split; try assumption; cbn [stack_mass]; lia.
  - cbn [forallb] in Hw, Hp. apply andb_prop in Hw, Hp. destruct Hw as [Hw1 Hw2], Hp as [Hp1 Hp2].
    destruct (run_with stp body (with_stk st (x :: stk st))) as [st1|] eqn:E; [|discriminate].
    assert (Hok0 : ok_stack (stk (with_stk st (x :: stk st))) = true).
    { unfold ok_stack, wt_stack, stack_pos, with_stk in *. cbn [stk forallb]. apply andb_prop in Hok. destruct Hok as [O1 O2].
      rewrite Hw1, Hp1, O1, O2. reflexivity. }
    destruct (run_with_preserves stp body Hbody _ st1 Hok0 E) as [Hok1 Hle1].
    destruct (stk st1) as [|y s'] eqn:Es; [discriminate|].
    assert (Hy : wt y = true /\ tickets_pos y = true /\ ok_stack s' = true).
    { unfold ok_stack, wt_stack, stack_pos in *. cbn [forallb] in Hok1. apply andb_prop in Hok1. destruct Hok1 as [O1 O2].
      apply andb_prop in O1, O2. destruct O1 as [A1 A2], O2 as [B1 B2]. rewrite A2, B2. repeat split; assumption. }
    destruct Hy as (Hyw & Hyp & Hs').
    assert (Haw2 : forallb wt (acc ++ [y]) = true) by (rewrite forallb_app, Haw; cbn [forallb]; rewrite Hyw; reflexivity).
    assert (Hap2 : forallb tickets_pos (acc ++ [y]) = true) by (rewrite forallb_app, Hap; cbn [forallb]; rewrite Hyp; reflexivity).
    destruct (IH (with_stk st1 s') (acc ++ [y]) st' items Hs' Hw2 Hp2 Haw2 Hap2 H) as (R1 & R2 & R3 & R4).
    repeat split; try assumption.
    + specialize (R4 k). specialize (Hle1 k). rewrite stack_mass_app in R4. unfold with_stk in *.
      cbn [stk minted stack_mass] in *. rewrite Es in Hle1. cbn [stack_mass] in Hle1. clear - R4 Hle1. lia.
    + specialize (R4 k). specialize (Hle1 k). unfold with_stk in *. cbn [stk minted] in *. clear - R4 Hle1. lia.
Qed.

Lemma ty_eqb_refl t : ty_eqb t t = true.
Proof. apply ty_eqb_eq. reflexivity. Qed.

Lemma list_from_items_facts t items v k :
  forallb wt items = true -> list_from_items t items = Ok v ->
  wt v = true /\ tickets_pos v = forallb tickets_pos items /\ mass k v = stack_mass k items.
Proof.
  intros Hw H. destruct items as [|x r]; cbn [list_from_items] in H.
  - injection H as <-. repeat split.
  - destruct (forallb (fun y => ty_eqb (type_of x) (type_of y)) r) eqn:E; [|discriminate]. injection H as <-.
    rewrite wt_list, pos_list, mass_list. repeat split.
    cbn [forallb] in *. apply andb_prop in Hw. destruct Hw as [Hx Hr]. rewrite ty_eqb_refl, Hx. cbn [andb].
    clear Hx. induction r as [|y r' IHr]; [reflexivity|]. cbn [forallb] in *.
    apply andb_prop in E, Hr. destruct E as [E1 E2], Hr as [Hr1 Hr2]. rewrite E1, Hr1, (IHr Hr2 E2). reflexivity.
Qed.

Theorem step_preserves f : forall i, preserves (step f i).
Proof.
  induction f as [|f IHfuel]; intros i.
  { intros st st' _ H. discriminate H. }
  assert (Hall : forall p, Forall (fun j => preserves (step f j)) p)
    by (intros p; apply Forall_forall; intros j _; apply IHfuel).
  destruct i.
  all: try (apply step_base_preserves; intros; discriminate).
  - { intros [sf s m] st' Hok H. cbn [step stk] in H.
    destruct s as [|x s]; [discriminate|]. destruct x; try discriminate.
    + (* Some v *)
      set (st1 := with_stk {| self := sf; stk := VSome x :: s; minted := m |} (x :: s)) in *.
      assert (Hok1 : ok_stack (stk st1) = true) by (unfold st1; norm; exact Hok).
      destruct (run_with_preserves (step f) bf (Hall bf) st1 st' Hok1 H) as [Hok' Hle].
      split; [assumption|]. eapply le_state_trans; [|exact Hle]. intros k. unfold st1. norm. lia.
    + (* None *)
      set (st1 := with_stk {| self := sf; stk := VNone t :: s; minted := m |} s) in *.
      assert (Hok1 : ok_stack (stk st1) = true) by (unfold st1; norm; exact Hok).
      destruct (run_with_preserves (step f) bt (Hall bt) st1 st' Hok1 H) as [Hok' Hle].
      split; [assumption|]. eapply le_state_trans; [|exact Hle]. intros k. unfold st1. norm. lia. }
  - { intros [sf s m] st' Hok H. cbn [step stk] in H.
    destruct s as [|x s]; [discriminate|]. destruct x; try discriminate. destruct l as [|y l].
    + set (st1 := with_stk {| self := sf; stk := VList t [] :: s; minted := m |} s) in *.
      assert (Hok1 : ok_stack (stk st1) = true) by (unfold st1; norm; exact Hok).
      destruct (run_with_preserves (step f) bf (Hall bf) st1 st' Hok1 H) as [Hok' Hle].
      split; [assumption|]. eapply le_state_trans; [|exact Hle]. intros k. unfold st1. norm. lia.
    + set (st1 := with_stk {| self := sf; stk := VList t (y :: l) :: s; minted := m |} (y :: VList t l :: s)) in *.
      assert (Hok1 : ok_stack (stk st1) = true).
      { unfold st1. norm. split_ands. solve_bool. }
      destruct (run_with_preserves (step f) bt (Hall bt) st1 st' Hok1 H) as [Hok' Hle].
      split; [assumption|]. eapply le_state_trans; [|exact Hle]. intros k. unfold st1. norm. lia. }
  - {
    intros [sf s m] st' Hok H. cbn [step stk] in H.
    destruct s as [|x s]; [discriminate|]. destruct x; try discriminate.
    - (* pair *)
      assert (Hparts : ok_stack s = true /\ forallb wt [x1; x2] = true /\ forallb tickets_pos [x1; x2] = true).
      { norm. split_ands. repeat split; solve_bool. }
      destruct Hparts as (Hs & Hw & Hp).
      match type of H with iter_with _ _ ?l0 ?st0 = _ =>
        destruct (iter_with_preserves (step f) body (Hall body) l0 st0 st' Hs Hw Hp H) as [Hok' Hle] end.
      split; [assumption|]. intros k. specialize (Hle k). norm. lia.
    - (* list *)
      assert (Hparts : ok_stack s = true /\ forallb wt l = true /\ forallb tickets_pos l = true).
      { unfold ok_stack, wt_stack, stack_pos in *. cbn [stk forallb] in Hok.
        apply andb_prop in Hok. destruct Hok as [O1 O2]. apply andb_prop in O1, O2.
        destruct O1 as [W1 W2], O2 as [P1 P2]. rewrite W2, P2. rewrite pos_list in P1.
        split; [reflexivity|]. split; [apply (wt_list_forall t l W1) | exact P1]. }
      destruct Hparts as (Hs & Hw & Hp).
      match type of H with iter_with _ _ ?l0 ?st0 = _ =>
        destruct (iter_with_preserves (step f) body (Hall body) l0 st0 st' Hs Hw Hp H) as [Hok' Hle] end.
      split; [assumption|]. intros k. specialize (Hle k). unfold with_stk in Hle.
      cbn [stk minted] in *. cbn [stack_mass]. rewrite mass_list. lia.
    - (* map (not big_map): iterate over the (key, value) pairs *)
      destruct big; [discriminate|].
      set (prs := map (fun kv => VPair (VNat (fst kv)) (snd kv)) m0) in *.
      assert (Hparts : ok_stack s = true /\ forallb wt prs = true /\ forallb tickets_pos prs = true /\
                       forall k, stack_mass k prs = map_mass k m0).
      { unfold ok_stack, wt_stack, stack_pos in *. cbn [stk forallb] in Hok.
        apply andb_prop in Hok. destruct Hok as [O1 O2]. apply andb_prop in O1, O2.
        destruct O1 as [W1 W2], O2 as [P1 P2]. rewrite W2, P2. rewrite wt_map in W1. rewrite pos_map in P1.
        split; [reflexivity|]. unfold prs. clear - W1 P1.
        induction m0 as [|[k0 x] r IHr]; [repeat split|].
        cbn [forallb map fst snd stack_mass map_mass mass wt tickets_pos] in *.
        apply andb_prop in W1, P1. destruct W1 as [E1 W1], P1 as [Q1 P1]. unfold entry_ok in E1. cbn [fst snd] in E1.
        apply andb_prop in E1. destruct E1 as [E1 E3]. apply andb_prop in E1. destruct E1 as [E1 E2].
        destruct (IHr W1 P1) as (A & B & C). rewrite E1, E3, Q1, A, B. repeat split. intros k. rewrite C. lia. }
      destruct Hparts as (Hs & Hw & Hp & Hm).
      match type of H with iter_with _ _ ?l0 ?st0 = _ =>
        destruct (iter_with_preserves (step f) body (Hall body) l0 st0 st' Hs Hw Hp H) as [Hok' Hle] end.
      split; [assumption|]. intros k. specialize (Hle k). unfold with_stk in Hle.
      cbn [stk minted] in *. cbn [stack_mass]. rewrite mass_map, <- Hm. lia.
  }
  - {
    intros [sf s m] st' Hok H. cbn [step stk] in H.
    destruct s as [|x s]; [discriminate|]. destruct x; try discriminate.
    assert (Hparts : ok_stack s = true /\ forallb wt l = true /\ forallb tickets_pos l = true).
    { unfold ok_stack, wt_stack, stack_pos in *. cbn [stk forallb] in Hok.
      apply andb_prop in Hok. destruct Hok as [O1 O2]. apply andb_prop in O1, O2.
      destruct O1 as [W1 W2], O2 as [P1 P2]. rewrite W2, P2. rewrite pos_list in P1.
      split; [reflexivity|]. split; [apply (wt_list_forall t l W1) | exact P1]. }
    destruct Hparts as (Hs & Hw & Hp).
    destruct (map_with (step f) body l (with_stk {| self := sf; stk := VList t l :: s; minted := m |} s) []) as [[st1 items]|] eqn:E;
      [|discriminate].
    destruct (map_with_preserves (step f) body (Hall body) l (with_stk {| self := sf; stk := VList t l :: s; minted := m |} s) [] st1 items Hs Hw Hp eq_refl eq_refl E) as (R1 & R2 & R3 & R4).
    destruct (list_from_items t items) as [v|] eqn:Ev; [|discriminate]. injection H as <-.
    split.
    - destruct (list_from_items_facts t items v (sf, CN 0) R2 Ev) as (F1 & F2 & _).
      unfold ok_stack, wt_stack, stack_pos, with_stk in *. cbn [stk forallb]. rewrite F1, F2, R3.
      apply andb_prop in R1. destruct R1 as [A B]. rewrite A, B. reflexivity.
    - intros k. specialize (R4 k). destruct (list_from_items_facts t items v k R2 Ev) as (_ & _ & F3).
      unfold with_stk in *. cbn [stk minted stack_mass] in *. rewrite F3, mass_list. lia.
  }
  - { (* IF_LEFT *)
      intros [sf s m] st' Hok H. cbn [step stk] in H.
      destruct s as [|x s]; [discriminate|]. destruct x; try discriminate.
      + set (st1 := with_stk {| self := sf; stk := VLeft x tr :: s; minted := m |} (x :: s)) in *.
        assert (Hok1 : ok_stack (stk st1) = true) by (unfold st1; norm; exact Hok).
        destruct (run_with_preserves (step f) bt (Hall bt) st1 st' Hok1 H) as [Hok' Hle].
        split; [assumption|]. eapply le_state_trans; [|exact Hle]. intros k. unfold st1. norm. lia.
      + set (st1 := with_stk {| self := sf; stk := VRight tl x :: s; minted := m |} (x :: s)) in *.
        assert (Hok1 : ok_stack (stk st1) = true) by (unfold st1; norm; exact Hok).
        destruct (run_with_preserves (step f) bf (Hall bf) st1 st' Hok1 H) as [Hok' Hle].
        split; [assumption|]. eapply le_state_trans; [|exact Hle]. intros k. unfold st1. norm. lia. }
  - { (* EXEC *)
      intros [sf s m] st' Hok H. cbn [step stk self minted] in H.
      destruct s as [|x s]; [discriminate|]. destruct s as [|lam s]; [discriminate|]. destruct lam; try discriminate.
      destruct (ty_eqb a (type_of x) && forallb (fun c => pushable (type_of c)) caps) eqn:Ec; [|discriminate].
      apply andb_prop in Ec. destruct Ec as [_ Ecaps].
      unfold ok_stack, wt_stack, stack_pos in Hok. cbn [stk forallb] in Hok. apply andb_prop in Hok. destruct Hok as [O1 O2].
      apply andb_prop in O1, O2. destruct O1 as [Wx O1], O2 as [Px O2]. apply andb_prop in O1, O2.
      destruct O1 as [Wl Ws], O2 as [_ Ps]. rewrite wt_lam in Wl.
      destruct (fold_caps_facts x caps Wx Px Wl Ecaps) as (Wa & Pa & Ma).
      destruct (run_with (step f) body {| self := sf; stk := [fold_right VPair x caps]; minted := m |}) as [st1|] eqn:E; [|discriminate].
      assert (Hok0 : ok_stack (stk {| self := sf; stk := [fold_right VPair x caps]; minted := m |}) = true).
      { unfold ok_stack, wt_stack, stack_pos. cbn [stk forallb]. rewrite Wa, Pa. reflexivity. }
      destruct (run_with_preserves (step f) body (Hall body) _ st1 Hok0 E) as [Hok1 Hle1].
      destruct (stk st1) as [|y [|y2 rest]] eqn:Es; try discriminate.
      destruct (ty_eqb r (type_of y)); [|discriminate]. injection H as <-.
      unfold ok_stack, wt_stack, stack_pos in *. cbn [stk forallb] in *. apply andb_prop in Hok1. destruct Hok1 as [A B].
      rewrite andb_true_r in A, B. split.
      + rewrite A, B, Ws, Ps. reflexivity.
      + intros k. specialize (Hle1 k). cbn [stk minted stack_mass mass] in *. rewrite Es in Hle1. cbn [stack_mass] in Hle1.
        rewrite (Ma k) in Hle1. pose proof (mass_nonneg k x Px). lia. }
  - { (* LOOP *)
      intros [sf s m] st' Hok H. cbn [step stk] in H.
      destruct s as [|x s]; [discriminate|]. destruct x; try discriminate. destruct b.
      + set (st0 := with_stk {| self := sf; stk := VBool true :: s; minted := m |} s) in *.
        assert (Hok0 : ok_stack (stk st0) = true) by (unfold st0; norm; exact Hok).
        destruct (run_with (step f) body st0) as [st1|] eqn:E; [|discriminate].
        destruct (run_with_preserves (step f) body (Hall body) st0 st1 Hok0 E) as [Hok1 Hle1].
        destruct (IHfuel (LOOP body) st1 st' Hok1 H) as [Hok' Hle'].
        split; [assumption|]. eapply le_state_trans; [|eapply le_state_trans; [exact Hle1 | exact Hle']].
        intros k. unfold st0. norm. lia.
      + injection H as <-. split; [norm; exact Hok|]. intros k. norm. lia. }
Qed.

Theorem run_preserves f p : preserves (run f p).
Proof. apply run_with_preserves. apply Forall_forall. intros i _. apply step_preserves. Qed.

(* ---- programs without TICKET never touch the ledger ---- *)
Definition keeps_ledger (f : state -> result state) : Prop :=
  forall st st', f st = Ok st' -> minted st' = minted st.

Lemma run_with_keeps (stp : instr -> state -> result state) p :
  Forall (fun i => has_ticket_instr i = false -> keeps_ledger (stp i)) p ->
  existsb has_ticket_instr p = false -> keeps_ledger (run_with stp p).
Proof.
  induction 1 as [|i p Hi Hp IH]; intros Hno st st' Hrun; simpl in Hrun.
  - injection Hrun as <-. reflexivity.
  - cbn [existsb] in Hno. apply orb_false_elim in Hno. destruct Hno as [H1 H2].
    destruct (stp i st) as [st1|] eqn:E; [|discriminate].
    rewrite (IH H2 st1 st' Hrun). apply (Hi H1 st st1 E).
Qed.

Lemma existsb_fix p :
  (fix go (l : list instr) : bool := match l with [] => false | x :: r => has_ticket_instr x || go r end) p
  = existsb has_ticket_instr p.
Proof. induction p as [|x r IH]; [reflexivity|]. cbn [existsb]. rewrite <- IH. reflexivity. Qed.

Lemma iter_with_keeps (stp : instr -> state -> result state) body :
  Forall (fun i => has_ticket_instr i = false -> keeps_ledger (stp i)) body ->
  existsb has_ticket_instr body = false ->
  forall l st st', iter_with stp body l st = Ok st' -> minted st' = minted st.
Proof.
  intros Hb Hno. induction l as [|x r IH]; intros st st' H; cbn [iter_with] in H.
  - injection H as <-. reflexivity.
  - destruct (run_with stp body (with_stk st (x :: stk st))) as [st1|] eqn:E; [|discriminate].
    rewrite (IH st1 st' H). apply (run_with_keeps stp body Hb Hno) in E. exact E.
Qed.

Lemma map_with_keeps (stp : instr -> state -> result state) body :
  Forall (fun i => has_ticket_instr i = false -> keeps_ledger (stp i)) body ->
  existsb has_ticket_instr body = false ->
  forall l st acc st' items, map_with stp body l st acc = Ok (st', items) -> minted st' = minted st.
Proof.
  intros Hb Hno. induction l as [|x r IH]; intros st acc st' items H; cbn [map_with] in H.
  - injection H as <- _. reflexivity.
  - destruct (run_with stp body (with_stk st (x :: stk st))) as [st1|] eqn:E; [|discriminate].
    destruct (stk st1) as [|y s']; [discriminate|].
    rewrite (IH _ _ st' items H). apply (run_with_keeps stp body Hb Hno) in E. exact E.
Qed.

Theorem step_keeps_ledger f : forall i, has_ticket_instr i = false -> keeps_ledger (step f i).
Proof.
  induction f as [|f IHfuel]; intros i Hno.
  { intros st st' H. discriminate H. }
  assert (Hall : forall p, Forall (fun j => has_ticket_instr j = false -> keeps_ledger (step f j)) p)
    by (intros p; apply Forall_forall; intros j _; apply IHfuel).
  destruct i; try discriminate Hno.
  all: try (intros [sf stk0 m] st' H; cbn [step stk] in H; destruct_matches H; injection H as <-; reflexivity).
  - { (* IF_NONE *)
      cbn [has_ticket_instr] in Hno. rewrite !existsb_fix in Hno. apply orb_false_elim in Hno. destruct Hno as [H1 H2].
      intros [sf s m] st' H. cbn [step stk] in H.
      destruct s as [|x s]; [discriminate|]. destruct x; try discriminate.
      + apply (run_with_keeps (step f) bf (Hall bf) H2) in H. exact H.
      + apply (run_with_keeps (step f) bt (Hall bt) H1) in H. exact H. }
  - { (* IF_CONS *)
      cbn [has_ticket_instr] in Hno. rewrite !existsb_fix in Hno. apply orb_false_elim in Hno. destruct Hno as [H1 H2].
      intros [sf s m] st' H. cbn [step stk] in H.
      destruct s as [|x s]; [discriminate|]. destruct x; try discriminate. destruct l as [|y l].
      + apply (run_with_keeps (step f) bf (Hall bf) H2) in H. exact H.
      + apply (run_with_keeps (step f) bt (Hall bt) H1) in H. exact H. }
  - { (* ITER *)
      cbn [has_ticket_instr] in Hno. rewrite existsb_fix in Hno.
      intros [sf s m] st' H. cbn [step stk] in H.
      destruct s as [|x s]; [discriminate|]. destruct x; try discriminate.
      - apply (iter_with_keeps (step f) body (Hall body) Hno) in H. exact H.
      - apply (iter_with_keeps (step f) body (Hall body) Hno) in H. exact H.
      - destruct big; [discriminate|]. apply (iter_with_keeps (step f) body (Hall body) Hno) in H. exact H. }
  - { (* MAP *)
      cbn [has_ticket_instr] in Hno. rewrite existsb_fix in Hno.
      intros [sf s m] st' H. cbn [step stk] in H.
      destruct s as [|x s]; [discriminate|]. destruct x; try discriminate.
      destruct (map_with (step f) body l (with_stk {| self := sf; stk := VList t l :: s; minted := m |} s) []) as [[st1 items]|] eqn:E;
        [|discriminate].
      destruct (list_from_items t items) as [v|]; [|discriminate]. injection H as <-.
      apply (map_with_keeps (step f) body (Hall body) Hno) in E. exact E. }
  - { (* IF_LEFT *)
      cbn [has_ticket_instr] in Hno. rewrite !existsb_fix in Hno. apply orb_false_elim in Hno. destruct Hno as [H1 H2].
      intros [sf s m] st' H. cbn [step stk] in H.
      destruct s as [|x s]; [discriminate|]. destruct x; try discriminate.
      + apply (run_with_keeps (step f) bt (Hall bt) H1) in H. exact H.
      + apply (run_with_keeps (step f) bf (Hall bf) H2) in H. exact H. }
  - { (* LOOP *)
      assert (Hno' := Hno). cbn [has_ticket_instr] in Hno. rewrite existsb_fix in Hno.
      intros [sf s m] st' H. cbn [step stk] in H.
      destruct s as [|x s]; [discriminate|]. destruct x; try discriminate. destruct b.
      + match type of H with context [run_with (step f) body ?st0] =>
          destruct (run_with (step f) body st0) as [st1|] eqn:E; [|discriminate] end.
        apply (run_with_keeps (step f) body (Hall body) Hno) in E.
        rewrite (IHfuel (LOOP body) Hno' st1 st' H). exact E.
      + injection H as <-. reflexivity. }
Qed.

Theorem run_keeps_ledger f p : prog_has_ticket p = false -> keeps_ledger (run f p).
Proof.
  intros Hno. apply run_with_keeps; [|exact Hno].
  apply Forall_forall. intros i _. apply step_keeps_ledger.
Qed.

(* ---- the program-level statements ---- *)
Theorem conservation f p st st' :
  ok_stack (stk st) = true -> run f p st = Ok st' ->
  ok_stack (stk st') = true /\
  forall k, stack_mass k (stk st') - stack_mass k (stk st) <= ledger_sum k (minted st') - ledger_sum k (minted st).
Proof.
  intros Hok H. destruct (run_preserves f p st st' Hok H) as [Hok' Hle].
  split; [assumption|]. intros k. specialize (Hle k). lia.
Qed.

Theorem no_ticket_no_growth f p st st' :
  ok_stack (stk st) = true -> prog_has_ticket p = false -> run f p st = Ok st' ->
  forall k, stack_mass k (stk st') <= stack_mass k (stk st).
Proof.
  intros Hok Hno H k. destruct (conservation f p st st' Hok H) as [_ Hc]. specialize (Hc k).
  rewrite (run_keeps_ledger f p Hno st st' H) in Hc. lia.
Qed.

Theorem from_empty f p a st' :
  run f p (init a) = Ok st' ->
  stack_pos (stk st') = true /\ forall k, stack_mass k (stk st') <= ledger_sum k (minted st').
Proof.
  intros H. destruct (conservation f p (init a) st' eq_refl H) as [Hok Hc].
  unfold ok_stack in Hok. apply andb_prop in Hok. destruct Hok as [_ Hp].
  split; [assumption|]. intros k. specialize (Hc k). simpl in Hc. lia.
Qed.

(* every ticket of a stack with [stack_pos] has a non-zero amount — unfolding for the record *)
Fixpoint tickets_of (v : val) : list (bytes * cval * Z) :=
  match v with
  | VTicket t c a => [(t, c, a)]
  | VPair a b => tickets_of a ++ tickets_of b
  | VSome x | VLeft x _ | VRight _ x => tickets_of x
  | VList _ l => (fix go (l : list val) := match l with [] => [] | x :: r => tickets_of x ++ go r end) l
  | _ => []
  end.

Lemma tickets_pos_spec v : tickets_pos v = true -> forall tk0 cv0 amt, In (tk0, cv0, amt) (tickets_of v) -> 0 < amt.
Proof.
  induction v as [| | | t0 c0 a0 | p q IHa IHb | x IH | | t0 l IH | | big vt m IHm | la lr caps lbody IHc | lx ltr IHl | rtl rx IHr] using val_ind'; intros Hp tk0 cv0 amt Hin;
    try (simpl in Hin; contradiction).
  - simpl in Hin. destruct Hin as [E|[]]. injection E as <- <- <-. simpl in Hp. lia.
  - cbn [tickets_pos tickets_of] in *. apply andb_prop in Hp. destruct Hp as [H1 H2].
    apply in_app_or in Hin. destruct Hin; [eapply IHa | eapply IHb]; eassumption.
  - cbn [tickets_pos tickets_of] in *. eapply IH; eassumption.
  - rewrite pos_list in Hp. cbn [tickets_of] in Hin.
    induction l as [|x r IHr]; [contradiction|].
    cbn [stack_pos forallb] in Hp. apply andb_prop in Hp. destruct Hp as [H1 H2].
    inversion IH as [|? ? Hx Hr]; subst.
    apply in_app_or in Hin. destruct Hin as [Hin|Hin]; [eapply Hx; eassumption | eapply IHr; eassumption].
  - cbn [tickets_pos tickets_of] in *. eapply IHl; eassumption.
  - cbn [tickets_pos tickets_of] in *. eapply IHr; eassumption.
Qed.

(* ---- per-instruction specifications ---- *)
Theorem ticket_spec f st item amount s c :
  stk st = item :: VNat amount :: s -> content_of item = Some c ->
  step (S f) TICKET st =
  Ok (if amount >? 0
      then {| self := self st; stk := VSome (VTicket (self st) c amount) :: s; minted := ((self st, c), amount) :: minted st |}
      else with_stk st (VNone (TTicket (cty_of c)) :: s)).
Proof.
  intros Hs Hc. cbn [step]. rewrite Hs, Hc. destruct (amount >? 0); reflexivity.
Qed.

Theorem split_spec f st tk c a l r s :
  stk st = VTicket tk c a :: VPair (VNat l) (VNat r) :: s ->
  (l = 0 \/ r = 0 \/ l + r <> a ->
     step (S f) SPLIT_TICKET st = Ok (with_stk st (VNone (TPair (TTicket (cty_of c)) (TTicket (cty_of c))) :: s))) /\
  (l <> 0 -> r <> 0 -> l + r = a ->
     step (S f) SPLIT_TICKET st = Ok (with_stk st (VSome (VPair (VTicket tk c l) (VTicket tk c r)) :: s))).
Proof.
  intros Hs. cbn [step]. rewrite Hs. unfold ticket_split. split.
  - intros H. destruct (negb (l + r =? a) || (l =? 0) || (r =? 0)) eqn:E; [reflexivity | lia].
  - intros H1 H2 H3. destruct (negb (l + r =? a) || (l =? 0) || (r =? 0)) eqn:E; [lia | reflexivity].
Qed.

Theorem join_spec f st t1 c1 a1 t2 c2 a2 s :
  stk st = VPair (VTicket t1 c1 a1) (VTicket t2 c2 a2) :: s -> cty_of c1 = cty_of c2 ->
  (t1 = t2 /\ c1 = c2 -> step (S f) JOIN_TICKETS st = Ok (with_stk st (VSome (VTicket t1 c1 (a1 + a2)) :: s))) /\
  (~ (t1 = t2 /\ c1 = c2) -> step (S f) JOIN_TICKETS st = Ok (with_stk st (VNone (TTicket (cty_of c1)) :: s))).
Proof.
  intros Hs Hc. cbn [step]. rewrite Hs, Hc.
  replace (cty_eqb (cty_of c2) (cty_of c2)) with true by (symmetry; apply cty_eqb_eq; reflexivity).
  unfold ticket_join. split.
  - intros [-> ->].
    replace (bytes_eqb t2 t2) with true by (symmetry; apply bytes_eqb_spec; reflexivity).
    replace (cval_eqb c2 c2) with true by (symmetry; apply cval_eqb_eq; reflexivity). reflexivity.
  - intros Hne. destruct (bytes_eqb t1 t2) eqn:E1, (cval_eqb c1 c2) eqn:E2; try reflexivity.
    exfalso. apply Hne. split; [apply bytes_eqb_spec | apply cval_eqb_eq]; assumption.
Qed.

(* values containing a ticket *)
Fixpoint has_ticket (v : val) : bool :=
  match v with
  | VTicket _ _ _ => true
  | VPair a b => has_ticket a || has_ticket b
  | VSome x | VLeft x _ | VRight _ x => has_ticket x
  | VList _ l => (fix go (l : list val) : bool := match l with [] => false | x :: r => has_ticket x || go r end) l
  | _ => false
  end.

Lemma has_ticket_not_duplicable v : wt v = true -> has_ticket v = true -> duplicable (type_of v) = false.
Proof.
  induction v as [| | | | a b IHa IHb | x IH | | t l IH | | big vt m IHm | la lr caps lbody IHc | lx ltr IHl | rtl rx IHr] using val_ind'; intros Hwt Hh; try discriminate Hh.
  - reflexivity.
  - cbn [wt has_ticket type_of duplicable] in *. apply andb_prop in Hwt. destruct Hwt as [W1 W2].
    apply orb_prop in Hh. destruct Hh as [Hh|Hh]; [rewrite (IHa W1 Hh) | rewrite (IHb W2 Hh), andb_false_r]; reflexivity.
  - cbn [wt has_ticket type_of duplicable] in *. apply IH; assumption.
  - rewrite wt_list in Hwt. cbn [type_of duplicable]. cbn [has_ticket] in Hh.
    induction l as [|x r IHr]; [discriminate|].
    cbn [forallb] in Hwt. apply andb_prop in Hwt. destruct Hwt as [Hx Hr]. apply andb_prop in Hx. destruct Hx as [Ht Hw].
    inversion IH as [|? ? Px Pr]; subst.
    apply orb_prop in Hh. destruct Hh as [Hh|Hh].
    + apply ty_eqb_eq in Ht. rewrite Ht. apply Px; assumption.
    + apply IHr; assumption.
  - cbn [wt has_ticket type_of duplicable] in *. rewrite (IHl Hwt Hh). reflexivity.
  - cbn [wt has_ticket type_of duplicable] in *. rewrite (IHr Hwt Hh), andb_false_r. reflexivity.
Qed.

Theorem dup_rejects_tickets f st x s :
  stk st = x :: s -> wt x = true -> has_ticket x = true -> step (S f) DUP st = Reject.
Proof.
  intros Hs Hw Hh. cbn [step]. rewrite Hs, (has_ticket_not_duplicable x Hw Hh). reflexivity.
Qed.

Theorem dupn_rejects_tickets f st n x :
  nth_error (stk st) n = Some x -> wt x = true -> has_ticket x = true -> step (S f) (DUPN (S n)) st = Reject.
Proof.
  intros Hs Hw Hh. cbn [step]. rewrite Hs, (has_ticket_not_duplicable x Hw Hh).
  destruct (stk st); reflexivity.
Qed.

(* a successful split or join redistributes the amount exactly *)
Theorem split_conserves_exactly f st tk c a l r s k :
  stk st = VTicket tk c a :: VPair (VNat l) (VNat r) :: s -> l <> 0 -> r <> 0 -> l + r = a ->
  exists st', step (S f) SPLIT_TICKET st = Ok st' /\ stack_mass k (stk st') = stack_mass k (stk st) /\ minted st' = minted st.
Proof.
  intros Hs Hl Hr Ha. destruct (split_spec f st tk c a l r s Hs) as [_ H]. specialize (H Hl Hr Ha).
  eexists. split; [exact H|]. rewrite Hs. unfold with_stk. cbn [stk minted stack_mass mass].
  split; [|reflexivity]. destruct (key_eqb k (tk, c)); lia.
Qed.

Theorem join_conserves_exactly f st t c a1 a2 s k :
  stk st = VPair (VTicket t c a1) (VTicket t c a2) :: s ->
  exists st', step (S f) JOIN_TICKETS st = Ok st' /\ stack_mass k (stk st') = stack_mass k (stk st) /\ minted st' = minted st.
Proof.
  intros Hs. destruct (join_spec f st t c a1 t c a2 s Hs eq_refl) as [H _]. specialize (H (conj eq_refl eq_refl)).
  eexists. split; [exact H|]. rewrite Hs. unfold with_stk. cbn [stk minted stack_mass mass].
  split; [|reflexivity]. destruct (key_eqb k (t, c)); lia.
Qed.

(* ---- maps / big_maps holding tickets: GET and DUP are refused (the statement defect #50 violated) ---- *)
Fixpoint ty_has_ticket (t : ty) : bool :=
  match t with
  | TTicket _ => true
  | TPair a b => ty_has_ticket a || ty_has_ticket b
  | TOption a | TList a | TMap _ a => ty_has_ticket a
  | _ => false
  end.

Lemma ty_has_ticket_not_duplicable t : ty_has_ticket t = true -> duplicable t = false.
Proof.
  induction t; cbn [ty_has_ticket duplicable]; intros H; try discriminate; try reflexivity; auto.
  apply orb_prop in H. destruct H as [H|H]; [rewrite (IHt1 H) | rewrite (IHt2 H), andb_false_r]; reflexivity.
Qed.

Theorem map_of_tickets_get_dup_rejected f st k big vt m s : ty_has_ticket vt = true ->
  (stk st = VNat k :: VMap big vt m :: s -> step (S f) GET st = Reject) /\
  (stk st = VMap big vt m :: s -> step (S f) DUP st = Reject) /\
  (forall n, nth_error (stk st) n = Some (VMap big vt m) -> step (S f) (DUPN (S n)) st = Reject).
Proof.
  intros Ht. pose proof (ty_has_ticket_not_duplicable vt Ht) as Hd. repeat split.
  - intros Hs. cbn [step]. rewrite Hs, Hd. reflexivity.
  - intros Hs. cbn [step]. rewrite Hs. cbn [type_of duplicable]. rewrite Hd. reflexivity.
  - intros n Hs. cbn [step]. rewrite Hs. cbn [type_of duplicable]. rewrite Hd. destruct (stk st); reflexivity.
Qed.

(* GET_AND_UPDATE is the way to take a ticket out: it moves the value, exactly *)
Theorem get_and_update_moves f st k t big vt m s :
  stk st = VNat k :: VNone t :: VMap big vt m :: s ->
  step (S f) GET_AND_UPDATE st = Ok (with_stk st (opt_of vt (map_get k m) :: VMap big vt (map_remove k m) :: s)) /\
  map_get k (map_remove k m) = None.
Proof.
  intros Hs. split; [cbn [step]; rewrite Hs; reflexivity|].
  clear. induction m as [|[k1 x] r IH]; [reflexivity|]. cbn [map_remove]. destruct (k =? k1) eqn:E; [exact IH|].
  cbn [map_get]. rewrite E. exact IH.
Qed.

(* ---- closures: a captured ticket can never come out again (the statement seed C20-5 violated) ---- *)
Lemma ty_has_ticket_not_pushable t : ty_has_ticket t = true -> pushable t = false.
Proof.
  induction t; cbn [ty_has_ticket pushable]; intros H; try discriminate; try reflexivity; auto.
  - apply orb_prop in H. destruct H as [H|H]; [rewrite (IHt1 H) | rewrite (IHt2 H), andb_false_r]; reflexivity.
  - destruct big; [reflexivity | auto].
Qed.

Lemma not_all_pushable caps c : In c caps -> pushable (type_of c) = false ->
  forallb (fun c0 => pushable (type_of c0)) caps = false.
Proof.
  induction caps as [|c0 r0 IH]; intros Hin Hp; [contradiction|]. cbn [forallb]. destruct Hin as [->|Hin].
  - rewrite Hp. reflexivity.
  - rewrite (IH Hin Hp). apply andb_false_r.
Qed.

Theorem closure_with_ticket_never_runs f st x a r caps body s c :
  stk st = x :: VLam a r caps body :: s -> In c caps -> ty_has_ticket (type_of c) = true ->
  step (S f) EXEC st = Reject.
Proof.
  intros Hs Hin Ht. cbn [step]. rewrite Hs.
  rewrite (not_all_pushable caps c Hin (ty_has_ticket_not_pushable _ Ht)), andb_false_r. reflexivity.
Qed.
