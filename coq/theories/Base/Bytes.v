(* Base/Bytes.v — byte strings as [list byte]; hex literals used by the generated
   correspondence cases; boolean equalities with their specifications. *)
From Coq Require Import List NArith ZArith Bool Ascii String Lia.
From Coq.Strings Require Import Byte.
Import ListNotations.

Definition bytes := list byte.

(* [b8 n] is the byte [n mod 256] (total; the fallback branch is unreachable). *)
Definition b8 (n : N) : byte :=
  match Byte.of_N (n mod 256) with Some b => b | None => x00 end.

Lemma to_N_b8 n : Byte.to_N (b8 n) = (n mod 256)%N.
Proof.
  unfold b8. destruct (Byte.of_N (n mod 256)) as [b|] eqn:E.
  - apply Byte.to_of_N in E. exact E.
  - apply Byte.of_N_None_iff in E.
    pose proof (N.mod_lt n 256 ltac:(discriminate)). lia.
Qed.

Lemma b8_to_N b : b8 (Byte.to_N b) = b.
Proof.
  unfold b8. pose proof (Byte.to_N_bounded b).
  rewrite N.mod_small by lia. rewrite Byte.of_to_N. reflexivity.
Qed.

Lemma to_N_lt_256 b : (Byte.to_N b < 256)%N.
Proof. pose proof (Byte.to_N_bounded b). lia. Qed.

Lemma to_N_inj a b : Byte.to_N a = Byte.to_N b -> a = b.
Proof. intro H. rewrite <- (b8_to_N a), <- (b8_to_N b), H. reflexivity. Qed.

Definition byte_eqb (a b : byte) : bool := Byte.eqb a b.

Lemma byte_eqb_spec a b : byte_eqb a b = true <-> a = b.
Proof.
  unfold byte_eqb. split.
  - apply Byte.byte_dec_bl.
  - apply Byte.byte_dec_lb.
Qed.

Fixpoint list_eqb {A} (eqb : A -> A -> bool) (l1 l2 : list A) : bool :=
  match l1, l2 with
  | [], [] => true
  | x :: l1', y :: l2' => eqb x y && list_eqb eqb l1' l2'
  | _, _ => false
  end.

Lemma list_eqb_spec {A} (eqb : A -> A -> bool) :
  (forall a b, eqb a b = true <-> a = b) ->
  forall l1 l2, list_eqb eqb l1 l2 = true <-> l1 = l2.
Proof.
  intros H l1. induction l1 as [|x l1 IH]; intros [|y l2]; simpl; split; intro E;
    try reflexivity; try discriminate.
  - apply andb_true_iff in E. destruct E as [E1 E2].
    apply H in E1. apply IH in E2. subst. reflexivity.
  - injection E as -> ->. apply andb_true_iff. split; [apply H | apply IH]; reflexivity.
Qed.

Definition bytes_eqb : bytes -> bytes -> bool := list_eqb byte_eqb.

Lemma bytes_eqb_spec a b : bytes_eqb a b = true <-> a = b.
Proof. apply list_eqb_spec, byte_eqb_spec. Qed.

Definition option_eqb {A} (eqb : A -> A -> bool) (a b : option A) : bool :=
  match a, b with
  | Some x, Some y => eqb x y
  | None, None => true
  | _, _ => false
  end.

Definition prod_eqb {A B} (ea : A -> A -> bool) (eb : B -> B -> bool) (a b : A * B) : bool :=
  ea (fst a) (fst b) && eb (snd a) (snd b).

(* ---- hex literals: [hx "00ff"] = [x00; xff]. Invalid digits count as 0 (only
   used for harness-generated literals, never inside a theorem). *)
Definition hexval (c : ascii) : N :=
  let n := N_of_ascii c in
  if (48 <=? n)%N && (n <=? 57)%N then n - 48
  else if (97 <=? n)%N && (n <=? 102)%N then n - 87
  else if (65 <=? n)%N && (n <=? 70)%N then n - 55
  else 0.

Fixpoint hx (s : string) : bytes :=
  match s with
  | String a (String b r) => b8 (16 * hexval a + hexval b) :: hx r
  | _ => []
  end.

(* ASCII text as bytes *)
Fixpoint tx (s : string) : bytes :=
  match s with
  | EmptyString => []
  | String a r => b8 (N_of_ascii a) :: tx r
  end.

(* big-endian natural number of a byte string, and back with a fixed width *)
Fixpoint be_to_N_acc (acc : N) (l : bytes) : N :=
  match l with
  | [] => acc
  | b :: r => be_to_N_acc (acc * 256 + Byte.to_N b) r
  end.
Definition be_to_N (l : bytes) : N := be_to_N_acc 0 l.

Fixpoint N_to_be (width : nat) (n : N) : bytes :=
  match width with
  | O => []
  | S w => N_to_be w (n / 256) ++ [b8 n]
  end.
