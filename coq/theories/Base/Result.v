(* Base/Result.v — outcome of a modelled Python call: a value or a rejection.
   Exception classes/messages are not modelled unless a property is about them. *)
Inductive result (A : Type) : Type :=
| Ok (a : A)
| Reject.
Arguments Ok {A} a.
Arguments Reject {A}.

Definition bind {A B} (r : result A) (f : A -> result B) : result B :=
  match r with Ok a => f a | Reject => Reject end.

Definition result_eqb {A} (eqb : A -> A -> bool) (a b : result A) : bool :=
  match a, b with
  | Ok x, Ok y => eqb x y
  | Reject, Reject => true
  | _, _ => false
  end.

Definition of_option {A} (o : option A) : result A :=
  match o with Some a => Ok a | None => Reject end.

Notation "'let*' x ':=' e 'in' f" := (bind e (fun x => f)) (at level 200, x pattern, right associativity).
