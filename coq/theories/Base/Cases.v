(* Base/Cases.v — the comparison primitive of the correspondence check.
   The harness writes [cases : list (In * Out)] where [Out] is what the implementation
   in /repo returned; [mismatches] is evaluated by [vm_compute] inside coqc and lists
   the indices on which the model disagrees. *)
From Coq Require Import List Arith Bool.
Import ListNotations.

Fixpoint mismatches_from {I O} (eqb : O -> O -> bool) (f : I -> O)
         (i : nat) (cases : list (I * O)) : list nat :=
  match cases with
  | [] => []
  | (x, y) :: r =>
      if eqb (f x) y then mismatches_from eqb f (S i) r
      else i :: mismatches_from eqb f (S i) r
  end.

Definition mismatches {I O} (eqb : O -> O -> bool) (f : I -> O) (cases : list (I * O)) : list nat :=
  mismatches_from eqb f 0 cases.

Lemma mismatches_nil_all {I O} (eqb : O -> O -> bool) (f : I -> O) cases :
  (forall a b, eqb a b = true -> a = b) ->
  mismatches eqb f cases = [] -> forall x y, In (x, y) cases -> f x = y.
Proof.
  intros Heq. unfold mismatches. generalize 0.
  induction cases as [|[x0 y0] r IH]; intros i H x y HIn; simpl in *.
  - contradiction.
  - destruct (eqb (f x0) y0) eqn:E; [|discriminate].
    destruct HIn as [HIn|HIn].
    + injection HIn as <- <-. apply Heq, E.
    + eapply IH; eauto.
Qed.
