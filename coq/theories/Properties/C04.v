(* C04 — PACK produces Tezos bytes and UNPACK inverts it for every packable type.
   Model: Michelson/Pack.v (pack = 0x05 ++ enc (to_mich Optimized v), unpack = of_mich after
   dec_full) over Michelson/Values.v and the binary Micheline codec Codec/MichelineBin.v.
   [C] is the Base58Check text layer (only used when UNPACK is given readable strings; laws
   [codec_ok], satisfied by the real functions: C11_real_codec_ok), [lam] the instruction parser.
   [wf_node tree]: every string/bytes/sequence length fits the 4-byte length fields, strings are
   valid UTF-8, lambda bodies use protocol primitives (domain of C05_decode_encode).
   [MichEnc n bs]: bs is a word of the binary Micheline grammar denoting n (C05). *)
From Coq Require Import String List ZArith NArith Bool Arith.
From Coq.Strings Require Import Byte.
From PV Require Import Base.Bytes Base.Result Codec.Micheline Codec.Zarith Codec.MichelineBin Codec.Prims
  Codec.Base58 Codec.Domain Michelson.Timestamp Michelson.Values Michelson.Pack
  Proofs.MichelineBin_proofs Proofs.Base58_proofs Proofs.Values_proofs Proofs.Pack_proofs.
Import ListNotations.
Local Open Scope list_scope.

(* UNPACK of PACK at the same type returns the value (every packable type, every value) *)
Theorem C04_unpack_pack : forall C lam, codec_ok C -> forall t v bs,
  has_type lam t v = true -> wf_node (to_mich C Optimized v) ->
  pack C t v = Ok bs -> unpack C lam t bs = Ok v.
Proof. exact unpack_pack. Qed.
Print Assumptions C04_unpack_pack.

(* instantiated with the real Base58Check functions (any sha256 with 32-byte output, pinned table) *)
Corollary C04_unpack_pack_real : forall sha256 lam, sha_ok sha256 -> forall t v bs,
  has_type lam t v = true -> wf_node (to_mich (real_codec sha256 table43) Optimized v) ->
  pack (real_codec sha256 table43) t v = Ok bs -> unpack (real_codec sha256 table43) lam t bs = Ok v.
Proof. intros sha256 lam Hs. exact (unpack_pack _ lam (real_codec_ok sha256 Hs)). Qed.
Print Assumptions C04_unpack_pack_real.

(* the same for the legacy layout (nested binary pairs) and for the UNPACK instruction *)
Theorem C04_unpack_pack_legacy : forall C lam, codec_ok C -> forall t v bs,
  has_type lam t v = true -> wf_node (to_mich C LegacyOptimized v) ->
  pack_legacy C t v = Ok bs -> unpack C lam t bs = Ok v.
Proof. exact unpack_pack_legacy. Qed.
Print Assumptions C04_unpack_pack_legacy.

Theorem C04_unpack_instr_pack : forall C lam, codec_ok C -> forall t v bs,
  has_type lam t v = true -> wf_node (to_mich C Optimized v) ->
  pack C t v = Ok bs -> unpack_instr C lam t bs = VSome v.
Proof. exact unpack_instr_pack. Qed.
Print Assumptions C04_unpack_instr_pack.

(* consequently PACK is injective on the values of a type *)
Theorem C04_pack_injective : forall C lam, codec_ok C -> forall t v1 v2 bs,
  has_type lam t v1 = true -> has_type lam t v2 = true ->
  wf_node (to_mich C Optimized v1) -> wf_node (to_mich C Optimized v2) ->
  pack C t v1 = Ok bs -> pack C t v2 = Ok bs -> v1 = v2.
Proof. exact pack_injective. Qed.
Print Assumptions C04_pack_injective.

(* PACK is defined exactly on packable types, and is 0x05 followed by the binary Micheline of the
   optimized tree; that tree is a word of the grammar *)
Theorem C04_pack_bytes : forall C t v,
  (packable t = true -> pack C t v = Ok (x05 :: enc (to_mich C Optimized v))) /\
  (packable t = false -> pack C t v = Reject).
Proof. intros C t v. exact (pack_bytes C (fun n => Ok n) t v). Qed.
Print Assumptions C04_pack_bytes.

Theorem C04_pack_in_grammar : forall C t v bs,
  pack C t v = Ok bs -> wf_node (to_mich C Optimized v) ->
  exists body, bs = x05 :: body /\ MichEnc (to_mich C Optimized v) body.
Proof. exact pack_in_grammar. Qed.
Print Assumptions C04_pack_in_grammar.

(* shape: the tree meets the independent specification Opt (domain values in binary form,
   timestamps as integers, combs of >= 4 leaves as sequences ...) for every value whose lambda
   bodies are already in optimized form.  FULL statement (without lambda_plain) is refuted below. *)
Theorem C04_pack_shape_partial : forall C lam t v,
  packable t = true -> lambda_plain C lam v = true ->
  exists tree, Opt C lam v tree /\ pack C t v = Ok (x05 :: enc tree).
Proof. exact pack_shape. Qed.
Print Assumptions C04_pack_shape_partial.

(* the comb part of the shape, explicitly: four or more leaves give a sequence of exactly the leaves *)
Theorem C04_comb_sequence : forall C a b,
  (4 <= List.length (comb C Optimized (VPair a b)))%nat ->
  to_mich C Optimized (VPair a b) = NSeq (comb C Optimized (VPair a b)).
Proof. intros C a b. exact (comb_rule_optimized_seq C (fun n => Ok n) a b). Qed.
Print Assumptions C04_comb_sequence.

(* known finding C04/lambda-push: a lambda whose body pushes a timestamp literal is packed with the
   readable string, so its bytes differ from 0x05 ++ enc(spec tree); unpack . pack still holds *)
Theorem C04_pack_shape_refuted : forall C,
  packable kf_ty = true /\ has_type lam_id kf_ty kf_val = true /\ wf_node (to_mich C Optimized kf_val) /\
  (forall tree, Opt C lam_id kf_val tree -> pack C kf_ty kf_val <> Ok (x05 :: enc tree)) /\
  (forall bs, pack C kf_ty kf_val = Ok bs -> unpack C lam_id kf_ty bs = Ok kf_val).
Proof. exact lambda_push_refutes. Qed.
Print Assumptions C04_pack_shape_refuted.

(* UNPACK accepts exactly: packable type, head byte 05, body a word of the grammar, tree of the type *)
Theorem C04_unpack_iff : forall C lam t bs v,
  unpack C lam t bs = Ok v <->
  packable t = true /\ exists r n, bs = x05 :: r /\ MichEnc n r /\ of_mich C lam t n = Ok v.
Proof. exact unpack_iff. Qed.
Print Assumptions C04_unpack_iff.

(* ... hence it returns None on everything else *)
Theorem C04_unpack_rejects : forall C lam t,
  (forall bs, (forall r, bs <> x05 :: r) -> unpack C lam t bs = Reject) /\
  (forall r, ~ (exists n, MichEnc n r) -> unpack C lam t (x05 :: r) = Reject) /\
  (forall r n, MichEnc n r -> of_mich C lam t n = Reject -> unpack C lam t (x05 :: r) = Reject) /\
  (forall bs, unpack_instr C lam t bs = VNone <-> unpack C lam t bs = Reject).
Proof. exact unpack_rejects. Qed.
Print Assumptions C04_unpack_rejects.

(* truncated data: no strict prefix of packed data unpacks (at any type); neither does an extension *)
Theorem C04_truncated_rejected : forall C lam m t v bs p x t',
  pack_mode C m t v = Ok bs -> wf_node (to_mich C m v) -> bs = p ++ x -> x <> [] ->
  unpack C lam t' p = Reject.
Proof. exact unpack_truncated. Qed.
Print Assumptions C04_truncated_rejected.

Theorem C04_trailing_rejected : forall C lam m t v bs x t',
  pack_mode C m t v = Ok bs -> wf_node (to_mich C m v) -> x <> [] ->
  unpack C lam t' (bs ++ x) = Reject.
Proof. exact unpack_trailing. Qed.
Print Assumptions C04_trailing_rejected.

(* non-minimal integer encodings (a continuation chain ending in a zero byte) are rejected *)
Theorem C04_nonminimal_int_rejected : forall C lam t b0 mid,
  cont b0 = true -> Forall (fun b => cont b = true) mid ->
  unpack C lam t (x05 :: x00 :: b0 :: mid ++ [x00]) = Reject.
Proof. exact unpack_nonminimal_int. Qed.
Print Assumptions C04_nonminimal_int_rejected.

(* ---------------------------------------------------------------- non-vacuity *)

Definition sha0 : bytes -> bytes := fun _ => repeat x00 32.
Definition C0 : codec := real_codec sha0 table43.

Definition ex_ty : ty := TPair TInt (TPair TKeyHash (TPair TTimestamp (TPair (TList TNat) TAddress))).
Definition ex_val : val :=
  VPair (VInt (-64)) (VPair (VKeyHash (Tz1, x00 :: repeat x11 18 ++ [x00]))
    (VPair (VTimestamp 1) (VPair (VList [VInt 0; VInt 128]) (VAddr (KT1, repeat x22 20) (Some (tx "do")))))).

(* hypotheses are satisfiable: a 5-comb with a boundary key hash; its packed form is a sequence
   (tag 02) and unpacks back; a strict prefix and a non-minimal integer are rejected *)
Example C04_example :
  has_type lam_id ex_ty ex_val = true /\ wf_nodeb known_prim utf8_valid (to_mich C0 Optimized ex_val) = true /\
  lambda_plain C0 lam_id ex_val = true /\
  (match pack C0 ex_ty ex_val with Ok (b0 :: b1 :: _) => byte_eqb b0 x05 && byte_eqb b1 x02 | _ => false end) = true /\
  (match pack C0 ex_ty ex_val with Ok bs => rval_eqb (unpack C0 lam_id ex_ty bs) (Ok ex_val) | _ => false end) = true /\
  (match pack C0 ex_ty ex_val with Ok bs => rval_eqb (unpack C0 lam_id ex_ty (removelast bs)) Reject | _ => false end) = true /\
  rval_eqb (unpack C0 lam_id TInt (hx "05008000")) Reject = true /\
  rval_eqb (unpack C0 lam_id TInt (hx "050080")) Reject = true /\
  rval_eqb (unpack C0 lam_id TInt (hx "05008001")) (Ok (VInt 64)) = true.
Proof. repeat split; vm_compute; reflexivity. Qed.
