(* C21 — BLS12-381 operations respect group and field laws.
   Model: Michelson/Bls.v.  Fr is concrete (Z modulo the curve order, 32-byte little-endian codec):
   its theorems are closed.  The curve groups G1/G2, scalar multiplication, the affine coordinates of a
   point and the pairing are py_ecc code: they are the Section variables below, and the laws assumed
   of them are the Section hypotheses, so every theorem about points reads "for every structure with
   these laws".  What is proved about pytezos' own code: the point codec (48-byte big-endian
   coordinates, G2 order im/re, infinity = flag 0x40 / 2^382) round-trips for every point including
   infinity, ADD/NEG/MUL compute the encoding of the group operation, hence the group laws hold on
   encodings, and PAIRING_CHECK is true exactly when the product of the pairings is one.
   PARTIAL BY NATURE: that py_ecc's arithmetic satisfies the hypotheses is not proved here. *)
From Coq Require Import List ZArith Bool.
From Coq.Strings Require Import Byte.
From PV Require Import Base.Bytes Base.Result Michelson.Arith Michelson.Bls Proofs.Bls_proofs.
Import ListNotations.
Local Open Scope Z_scope.

(* ---- Fr (closed) ---- *)

(* results are canonical representatives, and the operations are those of the ring Z/r *)
Theorem C21_fr_ring_laws : forall a b c,
  canonical (fr_add a b) /\ canonical (fr_mul a b) /\ canonical (fr_neg a) /\
  fr_add a b = fr_add b a /\ fr_add (fr_add a b) c = fr_add a (fr_add b c) /\
  fr_add 0 a = fr a /\ fr_add a (fr_neg a) = 0 /\
  fr_mul a b = fr_mul b a /\ fr_mul (fr_mul a b) c = fr_mul a (fr_mul b c) /\
  fr_mul 1 a = fr a /\ fr_mul a (fr_add b c) = fr_add (fr_mul a b) (fr_mul a c) /\
  fr_mul a b = fr_mul (fr a) b.
Proof.
  intros a b c. repeat split; try apply fr_range.
  - apply fr_add_comm. - apply fr_add_assoc. - apply fr_add_neg. - apply fr_mul_comm.
  - apply fr_mul_assoc. - apply fr_mul_1_l. - apply fr_mul_add_distr. - apply fr_mul_reduce_l.
Qed.
Print Assumptions C21_fr_ring_laws.

(* a canonical representative is a fixed point of the reduction; NEG is r - a *)
Theorem C21_fr_canonical : forall x, canonical x ->
  fr x = x /\ fr_neg x = if x =? 0 then 0 else FR_MODULUS - x.
Proof. intros x H. split; [apply fr_canonical | apply fr_neg_is_opposite]; exact H. Qed.
Print Assumptions C21_fr_canonical.

(* Fr encodings round-trip, both ways; byte strings longer than 32 bytes are refused *)
Theorem C21_fr_codec_roundtrip : forall x, canonical x ->
  exists b, fr_to_bytes x = Ok b /\ length b = 32%nat /\ fr_of_bytes b = Ok x.
Proof. exact fr_codec_roundtrip. Qed.
Print Assumptions C21_fr_codec_roundtrip.

Theorem C21_fr_bytes_roundtrip : forall b, length b = 32%nat -> le_val b < FR_MODULUS ->
  exists x, fr_of_bytes b = Ok x /\ fr_to_bytes x = Ok b.
Proof. exact fr_bytes_roundtrip. Qed.
Print Assumptions C21_fr_bytes_roundtrip.

Theorem C21_fr_bytes_too_long : forall b, fr_of_bytes b = Reject <-> (32 < length b)%nat.
Proof. exact fr_of_bytes_reject_iff. Qed.
Print Assumptions C21_fr_bytes_too_long.

(* ---- points: for every curve structure satisfying the stated laws ---- *)
Section Curve.
  Variables G1 G2 GT : Type.
  Variable add1 : G1 -> G1 -> G1.
  Variable neg1 : G1 -> G1.
  Variable mul1 : G1 -> Z -> G1.
  Variable zero1 : G1.
  Variable add2 : G2 -> G2 -> G2.
  Variable neg2 : G2 -> G2.
  Variable mul2 : G2 -> Z -> G2.
  Variable zero2 : G2.
  Variable coords1 : G1 -> affine1.
  Variable point1 : Z -> Z -> G1.
  Variable coords2 : G2 -> affine2.
  Variable point2 : Z -> Z -> Z -> Z -> G2.
  Variable pairing : G2 -> G1 -> GT.
  Variable gt_mul : GT -> GT -> GT.
  Variable gt_one : GT.
  Variable gt_eqb : GT -> GT -> bool.

  (* normalize / is_inf / (FQ x, FQ y, FQ 1): affine coordinates are reduced and rebuild the point *)
  Hypothesis coords1_inf : forall g, coords1 g = Inf1 -> g = zero1.
  Hypothesis coords1_aff : forall g x y, coords1 g = Aff1 x y ->
    0 <= x < FQ_MODULUS /\ 0 <= y < FQ_MODULUS /\ point1 x y = g.
  Hypothesis coords2_inf : forall g, coords2 g = Inf2 -> g = zero2.
  Hypothesis coords2_aff : forall g a b c d, coords2 g = Aff2 a b c d ->
    0 <= a < FQ_MODULUS /\ 0 <= b < FQ_MODULUS /\ 0 <= c < FQ_MODULUS /\ 0 <= d < FQ_MODULUS /\ point2 a b c d = g.
  (* group laws and order r *)
  Hypothesis add1_assoc : forall a b c, add1 (add1 a b) c = add1 a (add1 b c).
  Hypothesis add1_zero_l : forall a, add1 zero1 a = a.
  Hypothesis add1_zero_r : forall a, add1 a zero1 = a.
  Hypothesis add1_neg : forall a, add1 a (neg1 a) = zero1.
  Hypothesis add1_comm : forall a b, add1 a b = add1 b a.
  Hypothesis mul1_mod : forall a s, mul1 a (s mod FR_MODULUS) = mul1 a s.
  Hypothesis mul1_add_scalar : forall a s t, mul1 a (s + t) = add1 (mul1 a s) (mul1 a t).
  Hypothesis mul1_add_point : forall a b s, mul1 (add1 a b) s = add1 (mul1 a s) (mul1 b s).
  Hypothesis add2_assoc : forall a b c, add2 (add2 a b) c = add2 a (add2 b c).
  Hypothesis add2_zero_l : forall a, add2 zero2 a = a.
  Hypothesis add2_zero_r : forall a, add2 a zero2 = a.
  Hypothesis add2_neg : forall a, add2 a (neg2 a) = zero2.
  Hypothesis add2_comm : forall a b, add2 a b = add2 b a.
  Hypothesis mul2_mod : forall a s, mul2 a (s mod FR_MODULUS) = mul2 a s.
  Hypothesis mul2_add_scalar : forall a s t, mul2 a (s + t) = add2 (mul2 a s) (mul2 a t).
  (* FQ12 and the pairing *)
  Hypothesis gt_eqb_spec : forall a b, gt_eqb a b = true <-> a = b.
  Hypothesis gt_mul_one_l : forall a, gt_mul gt_one a = a.
  Hypothesis pairing_add : forall q a b, pairing q (add1 a b) = gt_mul (pairing q a) (pairing q b).
  Hypothesis pairing_zero : forall q, pairing q zero1 = gt_one.

  Let g1_from := g1_from_point G1 coords1.
  Let g1_to := g1_to_point G1 zero1 point1.
  Let g2_from := g2_from_point G2 coords2.
  Let g2_to := g2_to_point G2 zero2 point2.
  Let ex := bexec G1 G2 GT add1 neg1 mul1 zero1 add2 neg2 mul2 zero2 coords1 point1 coords2 point2 pairing gt_mul gt_one gt_eqb.
  Let e1 := enc1 G1 coords1.
  Let e2 := enc2 G2 coords2.

  (* point encodings round-trip, infinity included *)
  Theorem C21_point_roundtrip :
    (forall g, exists v, g1_from g = Ok v /\ length v = 96%nat /\ g1_to v = Ok g) /\
    (forall g, exists v, g2_from g = Ok v /\ length v = 192%nat /\ g2_to v = Ok g).
  Proof.
    split; intro g; [eapply g1_roundtrip | eapply g2_roundtrip]; eassumption.
  Qed.

  (* ADD / NEG / MUL compute the encoding of the group operation *)
  Theorem C21_ops_are_group_ops :
    (forall a b va vb, e1 a va -> e1 b vb -> exists vr, e1 (add1 a b) vr /\ ex BADD [BG1 va; BG1 vb] = Ok (BG1 vr)) /\
    (forall a va, e1 a va -> exists vr, e1 (neg1 a) vr /\ ex BNEG [BG1 va] = Ok (BG1 vr)) /\
    (forall a va s, e1 a va -> exists vr, e1 (mul1 a s) vr /\ ex BMUL [BG1 va; BFr s] = Ok (BG1 vr)) /\
    (forall a b va vb, e2 a va -> e2 b vb -> exists vr, e2 (add2 a b) vr /\ ex BADD [BG2 va; BG2 vb] = Ok (BG2 vr)) /\
    (forall a va, e2 a va -> exists vr, e2 (neg2 a) vr /\ ex BNEG [BG2 va] = Ok (BG2 vr)) /\
    (forall a va s, e2 a va -> exists vr, e2 (mul2 a s) vr /\ ex BMUL [BG2 va; BFr s] = Ok (BG2 vr)).
  Proof.
    repeat split; intros.
    - eapply add1_lifted; eassumption.
    - eapply neg1_lifted; eassumption.
    - eapply mul1_lifted; eassumption.
    - eapply add2_lifted; eassumption.
    - eapply neg2_lifted; eassumption.
    - eapply mul2_lifted; eassumption.
  Qed.

  (* identity, inverse, associativity, distributivity on G1 encodings *)
  Theorem C21_g1_group_laws : forall a b c va vb vc vz s t, e1 a va -> e1 b vb -> e1 c vc -> e1 zero1 vz ->
    (ex BADD [BG1 vz; BG1 va] = Ok (BG1 va) /\ ex BADD [BG1 va; BG1 vz] = Ok (BG1 va)) /\
    (exists vn, ex BNEG [BG1 va] = Ok (BG1 vn) /\ ex BADD [BG1 va; BG1 vn] = Ok (BG1 vz)) /\
    (exists vab vbc vr,
        ex BADD [BG1 va; BG1 vb] = Ok (BG1 vab) /\ ex BADD [BG1 vb; BG1 vc] = Ok (BG1 vbc) /\
        ex BADD [BG1 vab; BG1 vc] = Ok (BG1 vr) /\ ex BADD [BG1 va; BG1 vbc] = Ok (BG1 vr)) /\
    (exists v1 v2 v3,
        ex BMUL [BG1 va; BFr s] = Ok (BG1 v1) /\ ex BMUL [BG1 va; BFr t] = Ok (BG1 v2) /\
        ex BADD [BG1 v1; BG1 v2] = Ok (BG1 v3) /\ ex BMUL [BG1 va; BFr (fr_add s t)] = Ok (BG1 v3)) /\
    (exists vab v1 v2 v3,
        ex BADD [BG1 va; BG1 vb] = Ok (BG1 vab) /\ ex BMUL [BG1 vab; BFr s] = Ok (BG1 v3) /\
        ex BMUL [BG1 va; BFr s] = Ok (BG1 v1) /\ ex BMUL [BG1 vb; BFr s] = Ok (BG1 v2) /\
        ex BADD [BG1 v1; BG1 v2] = Ok (BG1 v3)).
  Proof.
    intros a b c va vb vc vz s t Ha Hb Hc Hz. repeat apply conj.
    - eapply g1_identity; eassumption.
    - eapply g1_identity; eassumption.
    - eapply g1_inverse; eassumption.
    - eapply g1_assoc; eassumption.
    - eapply g1_scalar_distributivity; eassumption.
    - eapply g1_point_distributivity; eassumption.
  Qed.

  Theorem C21_g2_group_laws : forall a b c va vb vc vz s t, e2 a va -> e2 b vb -> e2 c vc -> e2 zero2 vz ->
    (ex BADD [BG2 vz; BG2 va] = Ok (BG2 va) /\ ex BADD [BG2 va; BG2 vz] = Ok (BG2 va)) /\
    (exists vn, ex BNEG [BG2 va] = Ok (BG2 vn) /\ ex BADD [BG2 va; BG2 vn] = Ok (BG2 vz)) /\
    (exists vab vbc vr,
        ex BADD [BG2 va; BG2 vb] = Ok (BG2 vab) /\ ex BADD [BG2 vb; BG2 vc] = Ok (BG2 vbc) /\
        ex BADD [BG2 vab; BG2 vc] = Ok (BG2 vr) /\ ex BADD [BG2 va; BG2 vbc] = Ok (BG2 vr)) /\
    (exists v1 v2 v3,
        ex BMUL [BG2 va; BFr s] = Ok (BG2 v1) /\ ex BMUL [BG2 va; BFr t] = Ok (BG2 v2) /\
        ex BADD [BG2 v1; BG2 v2] = Ok (BG2 v3) /\ ex BMUL [BG2 va; BFr (fr_add s t)] = Ok (BG2 v3)).
  Proof.
    intros a b c va vb vc vz s t Ha Hb Hc Hz. repeat apply conj.
    - eapply g2_identity; eassumption.
    - eapply g2_identity; eassumption.
    - eapply g2_inverse; eassumption.
    - eapply g2_assoc; eassumption.
    - eapply g2_scalar_distributivity; eassumption.
  Qed.

  (* commutativity *)
  Theorem C21_add_commutes :
    (forall a b va vb, e1 a va -> e1 b vb ->
       exists vr, ex BADD [BG1 va; BG1 vb] = Ok (BG1 vr) /\ ex BADD [BG1 vb; BG1 va] = Ok (BG1 vr)) /\
    (forall a b va vb, e2 a va -> e2 b vb ->
       exists vr, ex BADD [BG2 va; BG2 vb] = Ok (BG2 vr) /\ ex BADD [BG2 vb; BG2 va] = Ok (BG2 vr)).
  Proof. split; intros; [eapply g1_comm | eapply g2_comm]; eassumption. Qed.

  (* PAIRING_CHECK is True exactly when the product of the pairings of the decoded points is one;
     it fails only if some element does not decode *)
  Theorem C21_pairing_check_is_product : forall l pts,
    decode_pairs G1 G2 zero1 zero2 point1 point2 l = Ok pts ->
    exists b, ex BPAIRING_CHECK [BPairs l] = Ok (BBool b) /\
              (b = true <-> pairing_product G1 G2 GT pairing gt_mul gt_one pts = gt_one).
  Proof. intros l pts H. eapply pairing_check_is_product; eassumption. Qed.

  (* bilinearity sample through the instruction: e(P,Q) * e(-P,Q) = 1 *)
  Theorem C21_pairing_check_inverse_pair : forall p q vp vn vq, e1 p vp -> e1 (neg1 p) vn -> e2 q vq ->
    ex BPAIRING_CHECK [BPairs [(vp, vq); (vn, vq)]] = Ok (BBool true).
  Proof. intros. eapply pairing_check_inverse_pair; eassumption. Qed.
End Curve.
Print Assumptions C21_point_roundtrip.
Print Assumptions C21_ops_are_group_ops.
Print Assumptions C21_g1_group_laws.
Print Assumptions C21_g2_group_laws.
Print Assumptions C21_add_commutes.
Print Assumptions C21_pairing_check_is_product.
Print Assumptions C21_pairing_check_inverse_pair.

(* non-vacuity: the hypotheses are satisfiable — the discrete-logarithm instance used by the
   correspondence check (Z/r for G1, G2 and GT, one table entry) evaluates through the model *)
Example C21_example_fr : fr_add (FR_MODULUS - 1) 2 = 1 /\ fr_neg 5 = FR_MODULUS - 5 /\ fr_mul (-1) (-1) = 1.
Proof. vm_compute. repeat split. Qed.
Example C21_example_inf :
  texec [] [] BADD [BG1 (be_digits 48 POW_2_382 ++ be_digits 48 0); BG1 (be_digits 48 POW_2_382 ++ be_digits 48 0)]
  = Ok (BG1 (be_digits 48 POW_2_382 ++ be_digits 48 0)).
Proof. vm_compute. reflexivity. Qed.

(* the Section hypotheses are jointly satisfiable (degenerate one-point curve): the theorems can be
   instantiated, here the G1 laws on the encoding of the only point, infinity *)
Example C21_hypotheses_satisfiable :
  let u := fun (_ _ : unit) => tt in
  let ex := bexec unit unit unit u (fun _ => tt) (fun _ _ => tt) tt u (fun _ => tt) (fun _ _ => tt) tt
                  (fun _ => Inf1) (fun _ _ => tt) (fun _ => Inf2) (fun _ _ _ _ => tt) u u tt (fun _ _ => true) in
  let inf := be_digits 48 POW_2_382 ++ be_digits 48 0 in
  ex BADD [BG1 inf; BG1 inf] = Ok (BG1 inf).
Proof.
  intros u ex inf.
  assert (E : enc1 unit (fun _ => Inf1) tt inf) by (vm_compute; reflexivity).
  refine (proj1 (proj1 (C21_g1_group_laws unit unit unit u (fun _ => tt) (fun _ _ => tt) tt u (fun _ => tt) (fun _ _ => tt) tt
            (fun _ => Inf1) (fun _ _ => tt) (fun _ => Inf2) (fun _ _ _ _ => tt) u u tt (fun _ _ => true)
            _ _ _ _ _ _ _ _ _ tt tt tt inf inf inf inf 0 0 E E E E))).
  all: try (intros; match goal with |- ?a = ?b => destruct a; destruct b; reflexivity end).
  intros g x y H. discriminate H.
Qed.
