(* C03 — COMPARE and ordered collections follow the Tezos total order.
   Model: Michelson/Compare.v.  [cmp t] is the specification (Script_comparable): numeric;
   bytewise lexicographic for string, bytes, signature, chain_id; False < True; key_hash and key
   by scheme (ed25519 < secp256k1 < p256 < bls) and then bytes; addresses implicit (by scheme) <
   originated < tx rollup < smart rollup, then the 20 hash bytes, then the entrypoint name with
   absent = "default"; None < Some; Left < Right; pairs lexicographic.
   [py_compare T] is pytezos' compare() (== then <, class by class); [T : texts] holds the
   base58check texts the string-valued classes compare, constrained only by [texts_ok T]
   (text order = payload order on key hashes and chain ids, texts determine payloads). *)
From Coq Require Import List ZArith NArith Bool Sorted String.
From Coq.Strings Require Import Byte.
From PV Require Import Base.Bytes Base.Result Michelson.Compare Michelson.Collections
  Proofs.Collections_proofs Proofs.Compare_proofs.
Import ListNotations.
Local Open Scope list_scope.

(* the relation is a total order on the well-typed values of every comparable type:
   reflexive, antisymmetric (Eq only on identical values; swapping the arguments flips the
   answer), transitive, total *)
Theorem C03_cmp_total_order : forall t,
  (forall a, has_type t a = true -> cmp t a a = Eq) /\
  (forall a b, has_type t a = true -> has_type t b = true -> (cmp t a b = Eq <-> a = b)) /\
  (forall a b, has_type t a = true -> has_type t b = true -> cmp t b a = CompOpp (cmp t a b)) /\
  (forall a b c, has_type t a = true -> has_type t b = true -> has_type t c = true ->
     cmp t a b = Lt -> cmp t b c = Lt -> cmp t a c = Lt) /\
  (forall a b, has_type t a = true -> has_type t b = true -> cmp t a b = Lt \/ a = b \/ cmp t b a = Lt).
Proof.
  intro t. split; [apply cmp_refl|]. split; [apply cmp_eq_iff|]. split; [apply cmp_antisym|].
  split; [apply cmp_trans | apply cmp_total].
Qed.
Print Assumptions C03_cmp_total_order.

(* COMPARE as pytezos computes it returns the specification's answer, for every comparable
   type (nested arbitrarily) and every two well-typed values.
   Full statement: the same for all values pytezos accepts.  Proved here on [has_type], which
   leaves out exactly one class of accepted values: addresses written with an EMPTY entrypoint
   ("A%", [VAddr k h (Some [])]); on that class the statement is false (next theorem; known
   finding address-empty-entrypoint, FIXLOG #41 not fixed). *)
Theorem C03_py_compare_is_cmp_partial : forall T, texts_ok T ->
  forall t a b, has_type t a = true -> has_type t b = true -> py_compare T a b = cmp t a b.
Proof. exact py_compare_is_cmp. Qed.
Print Assumptions C03_py_compare_is_cmp_partial.

(* the faithful model of the unrepaired code on the excluded class: "A%" and "A" are different
   values for pytezos, yet COMPARE answers 1 (Gt) in both directions — no total order there *)
Theorem C03_empty_entrypoint_refuted :
  exists T a b, texts_ok T /\ a <> b /\ py_compare T a b = Gt /\ py_compare T b a = Gt /\
    has_type TAddress b = true /\ has_type TAddress a = false.
Proof. exact empty_entrypoint_refuted. Qed.
Print Assumptions C03_empty_entrypoint_refuted.

(* hence COMPARE only ever pushes -1, 0 or 1, and 0 exactly on identical values *)
Theorem C03_compare_result_partial : forall T, texts_ok T ->
  forall t a b, has_type t a = true -> has_type t b = true ->
  let r := cmp_Z (py_compare T a b) in
  (r = (-1) \/ r = 0 \/ r = 1)%Z /\ (r = 0%Z <-> a = b).
Proof.
  intros T TOK t a b Ha Hb. simpl. rewrite (py_compare_is_cmp T TOK t a b Ha Hb).
  pose proof (cmp_eq_iff t a b Ha Hb) as E.
  destruct (cmp t a b); simpl; split; try tauto; split; intro H; try discriminate;
    apply E in H; discriminate.
Qed.
Print Assumptions C03_compare_result_partial.

(* sets, map keys and big_map keys: with pytezos' == and < on the values of a key type,
   (a) a literal passes check_constraints iff it is strictly cmp-increasing,
   (b) every set produced by a history of UPDATEs / literals iterates in strictly increasing
       cmp order (hence without duplicates), and so do the keys of every map,
   (c) UPDATE true inserts the element once, keeping the cmp order. *)
Theorem C03_sorted_is_cmp : forall T, texts_ok T -> forall t,
  (forall l, check_constraints (t_eqb T t) (t_ltb T t) l = true <-> StronglySorted (cmp_lt t) l) /\
  (forall ops, StronglySorted (cmp_lt t) (set_run (t_eqb T t) (t_ltb T t) ops)) /\
  (forall V (ops : list (map_op (typed t) V)),
      StronglySorted (cmp_lt t) (keys (map_run (t_eqb T t) (t_ltb T t) ops))) /\
  (forall x s, StronglySorted (cmp_lt t) s ->
      StronglySorted (cmp_lt t) (set_add (t_eqb T t) (t_ltb T t) x s) /\
      (forall y, In y (set_add (t_eqb T t) (t_ltb T t) x s) <-> y = x \/ In y s) /\
      NoDup (set_add (t_eqb T t) (t_ltb T t) x s)).
Proof.
  intros T TOK t. split; [apply literal_is_cmp, TOK|]. split; [apply set_is_cmp_sorted, TOK|].
  split; [intros V ops; apply map_is_cmp_sorted, TOK | apply set_add_is_cmp, TOK].
Qed.
Print Assumptions C03_sorted_is_cmp.

(* the same on the raw values the instructions carry (no subtype): for every history whose
   elements / keys are well-typed values of the key type, the set items and the map keys computed
   with pytezos' == and < are strictly cmp-increasing and well-typed; a literal of well-typed
   values passes check_constraints iff it is strictly cmp-increasing *)
Theorem C03_collections_ordered_by_cmp : forall T, texts_ok T -> forall t,
  (forall ops, Forall (set_op_typed t) ops ->
      StronglySorted (raw_lt t) (set_run (py_eq T) (py_lt T) ops) /\
      Forall (typed_val t) (set_run (py_eq T) (py_lt T) ops)) /\
  (forall V (ops : list (map_op val V)), Forall (map_op_typed t) ops ->
      StronglySorted (raw_lt t) (keys (map_run (py_eq T) (py_lt T) ops)) /\
      Forall (typed_val t) (keys (map_run (py_eq T) (py_lt T) ops))) /\
  (forall l, Forall (typed_val t) l ->
      (check_constraints (py_eq T) (py_lt T) l = true <-> StronglySorted (raw_lt t) l)).
Proof.
  intros T TOK t. split; [apply raw_set_sorted, TOK|].
  split; [intros V ops; apply raw_map_sorted, TOK | apply raw_literal, TOK].
Qed.
Print Assumptions C03_collections_ordered_by_cmp.

(* the order laws assumed of the key_hash / chain_id texts ([kh_order], [cid_order] of texts_ok) hold
   for the concrete base58check texts of Compare.v — the number prefix ++ payload ++ checksum written
   with 36 resp. 15 base-58 digits — whatever the 4-byte checksum function is; so for these two
   classes only the checksum (double SHA-256) remains an oracle.  (The run checks that these
   concrete texts are the real strings.) *)
Theorem C03_base58_texts_order_like_payloads : forall ck : bytes -> bytes,
  (forall b, List.length (ck b) = 4) ->
  (forall c h c' h', List.length h = 20 -> List.length h' = 20 ->
     lex_cmp (kh_text ck c h) (kh_text ck c' h') = then_cmp (N.compare (curve_idx c) (curve_idx c')) (lex_cmp h h')) /\
  (forall x y, List.length x = 4 -> List.length y = 4 -> lex_cmp (cid_text ck x) (cid_text ck y) = lex_cmp x y).
Proof.
  intros ck L. split; [apply kh_text_order, L | apply cid_text_order, L].
Qed.
Print Assumptions C03_base58_texts_order_like_payloads.

(* ---- non-vacuity *)

(* every comparable type except never (and pairs/ors built only from never) has a well-typed value *)
Example C03_types_inhabited : forall t v, witness t = Some v -> has_type t v = true.
Proof. exact witness_typed. Qed.

Example C03_witness_nested :
  witness (TPair (TOr TNever TAddress) (TOption (TPair TKey TUnit))) <> None.
Proof. vm_compute. discriminate. Qed.

(* [texts_ok] is satisfiable *)
Example C03_texts_ok_satisfiable : texts_ok demo_texts.
Proof. exact demo_texts_ok. Qed.

Example C03_pair_first_component_decides :
  cmp (TPair TInt TInt) (VPair (VInt 1) (VInt 5)) (VPair (VInt 2) (VInt 3)) = Lt /\
  py_compare demo_texts (VPair (VInt 1) (VInt 5)) (VPair (VInt 2) (VInt 3)) = Lt.
Proof. vm_compute. split; reflexivity. Qed.

Example C03_address_order :
  let h := repeat x11 20 in
  cmp TAddress (VAddr (AImpl Bls) h None) (VAddr AKT h None) = Lt /\
  cmp TAddress (VAddr AKT h None) (VAddr ASr h None) = Lt /\
  cmp TAddress (VAddr AKT h (Some (tx "a"%string))) (VAddr AKT h None) = Lt /\
  cmp TAddress (VAddr AKT h None) (VAddr AKT h (Some (tx "e"%string))) = Lt.
Proof. vm_compute. repeat split; reflexivity. Qed.
