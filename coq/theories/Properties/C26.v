(* C26 — RPC requests retry exactly the transient node failures.
   Model: Client/Retry.v (mirrors RpcNode.request and _is_transient_response).
   Every theorem quantifies over an arbitrary infinite response stream [rs : nat -> resp];
   the run consumes a prefix of it. Delays are in quarter seconds (0.25 s = 1, 2.0 s = 8). *)
From Coq Require Import List ZArith Bool Arith Sorted.
From PV Require Import Client.Retry Proofs.Retry_proofs.
Import ListNotations.

(* at least one and at most six requests are made *)
Theorem C26_attempts_le_6 : forall rs, 1 <= requests (run rs) <= 6.
Proof. exact attempts_bounds. Qed.
Print Assumptions C26_attempts_le_6.

(* request number k (0-based) is sent iff k < 6 and every earlier response was a transient
   server error (5xx with temporary/non-protocol JSON errors, or the prevalidator marker) *)
Theorem C26_resend_iff_transient : forall rs k,
  k < requests (run rs) <-> (k < 6 /\ forall j, j < k -> retriable (rs j) = true).
Proof. exact resend_iff. Qed.
Print Assumptions C26_resend_iff_transient.

(* the sleeps are exactly the prefix of 0.25, 0.5, 1, 2, 2 of length requests-1 ... *)
Theorem C26_delays : forall rs,
  delays (run rs) = firstn (requests (run rs) - 1) [1; 2; 4; 8; 8]%Z.
Proof. exact delays_run. Qed.
Print Assumptions C26_delays.

(* ... hence non-decreasing and capped at two seconds *)
Theorem C26_delays_nondecreasing_capped : forall rs,
  Sorted Z.le (delays (run rs)) /\ Forall (fun d => (0 < d <= MAX_DELAY_Q)%Z) (delays (run rs)).
Proof. exact delays_sorted_capped. Qed.
Print Assumptions C26_delays_nondecreasing_capped.

(* the last response consumed decides the outcome, and it is either the first
   non-transient response or the sixth one *)
Theorem C26_outcome : forall rs,
  let last := requests (run rs) - 1 in
  result (run rs) = classify last (rs last) /\ (retriable (rs last) = false \/ requests (run rs) = 6).
Proof. exact outcome_run. Qed.
Print Assumptions C26_outcome.

(* a response is returned iff it is the last one consumed and has status 200;
   no 200 response is ever passed over *)
Theorem C26_first_success_returned : forall rs,
  (forall i, result (run rs) = Returned i <-> (i = requests (run rs) - 1 /\ st (rs i) = S200)) /\
  (forall j, j < requests (run rs) - 1 -> st (rs j) <> S200).
Proof. intro rs. split; [apply success_iff | apply no_success_before_last]. Qed.
Print Assumptions C26_first_success_returned.

(* non-vacuity: a stream that retries three times and then succeeds *)
Example C26_example :
  obs (run_list [mk S5xx true false true false; mk S5xx false false false true;
                 mk S5xx true false true true; mk S200 false false false false])
  = (4, [1; 2; 4]%Z, Returned 3).
Proof. vm_compute. reflexivity. Qed.
