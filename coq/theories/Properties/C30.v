(* C30 — Protocol source diffs apply and revert exactly.
   Model: Codec/Diff.v (mirrors src/pytezos/protocol/diff.py:apply_patch — file-header skipping, the
   hunk-header regex and its four fields, l = start - 1 + (len == '0'), the bad-line-number guard,
   the "\ No newline at end of file" look-ahead, revert mode — and Protocol.patch of protocol.py).
   Texts are byte strings with LF as the only line separator; [splitlines] is str.splitlines(True).
   An edit script [s] (hunks = unchanged gap + lines tagged context/delete/add, then an unchanged tail) is
   [valid_script a b s] when its old side is the lines of a and its new side the lines of b; [render hdr s]
   is its unified-diff text exactly as make_patch prints it (difflib's range format, the no-newline
   marker after an unterminated line), with optional file-header lines [hdr]. Every run of the
   check validates that the patches make_patch produces are [render] of a valid script. *)
From Coq Require Import List Arith Bool NArith ZArith.
From Coq.Strings Require Import Byte.
From PV Require Import Base.Bytes Base.Result Codec.Diff Proofs.Diff_proofs.
Import ListNotations.

(* applying the text of any edit script from a to b to the old text yields the new text *)
Theorem C30_apply : forall (a b : bytes) (hdr : list bytes) (s : script),
  forallb hdr_line hdr = true -> valid_script a b s ->
  apply_patch a (render hdr s) false = Ok b.
Proof. exact apply_ok. Qed.
Print Assumptions C30_apply.

(* applying it in reverse to the new text yields the old text *)
Theorem C30_revert : forall (a b : bytes) (hdr : list bytes) (s : script),
  forallb hdr_line hdr = true -> valid_script a b s ->
  apply_patch b (render hdr s) true = Ok a.
Proof. exact revert_ok. Qed.
Print Assumptions C30_revert.

(* the empty patch (make_patch of identical texts) changes nothing, in both directions *)
Theorem C30_empty_patch : forall (a : bytes) (rv : bool), apply_patch a [] rv = Ok a.
Proof. exact empty_patch. Qed.
Print Assumptions C30_empty_patch.

(* the hypotheses are satisfiable for every pair of texts: an edit script always exists *)
Theorem C30_script_exists : forall a b : bytes, exists s, valid_script a b s.
Proof. intros a b. exists (trivial_script a b). apply trivial_valid. Qed.
Print Assumptions C30_script_exists.

(* splitting into lines loses nothing (every text, with or without final newline, empty included) *)
Theorem C30_lines_join : forall s : bytes, concat (splitlines s) = s.
Proof. exact concat_splitlines. Qed.
Print Assumptions C30_lines_join.

(* Protocol.patch after Protocol.diff: if, file by file of the second protocol, the diff entry is the empty
   text for an unchanged file and otherwise the text of a valid script from the first protocol's file
   (absent = empty text) to the second's, patching the first protocol reproduces the second's files *)
Theorem C30_protocol_patch : forall (yours diff theirs : list (bytes * bytes)),
  Forall2 (diff_entry yours) diff theirs -> patch_files yours diff = Ok theirs.
Proof. exact patch_files_ok. Qed.
Print Assumptions C30_protocol_patch.

(* with make_patch as an oracle obeying the law validated on every run (identical texts -> empty patch,
   otherwise the text of a valid edit script): diffing two protocols and patching the first with the
   result reproduces the second *)
Theorem C30_protocol_diff_patch : forall (mk : bytes -> bytes -> bytes -> bytes) (yours theirs : list (bytes * bytes)),
  make_patch_law mk -> patch_files yours (diff_files mk yours theirs) = Ok theirs.
Proof. exact diff_then_patch. Qed.
Print Assumptions C30_protocol_diff_patch.

(* apply, then revert the result: back to the old text *)
Theorem C30_apply_then_revert : forall (a b : bytes) (hdr : list bytes) (s : script),
  forallb hdr_line hdr = true -> valid_script a b s ->
  bind (apply_patch a (render hdr s) false) (fun t => apply_patch t (render hdr s) true) = Ok a.
Proof. exact apply_then_revert. Qed.
Print Assumptions C30_apply_then_revert.

(* non-vacuity: a script with context, a deletion, an addition without final newline *)
Example C30_example :
  let a := [x61; x0a; x62; x0a; x63; x0a] in           (* "a\nb\nc\n" *)
  let b := [x61; x0a; x58; x0a; x63] in                (* "a\nX\nc"    *)
  let s := mks [mkh [] [(TCtx, [x61; x0a]); (TDel, [x62; x0a]); (TAdd, [x58; x0a]); (TDel, [x63; x0a]); (TAdd, [x63])]] [] in
  let hdr := [[x2d; x2d; x2d; x20; x66; x0a]; [x2b; x2b; x2b; x20; x66; x0a]] in
  check_script (a, b, render hdr s, hdr, s) = true /\
  apply_patch a (render hdr s) false = Ok b /\ apply_patch b (render hdr s) true = Ok a.
Proof. vm_compute. repeat split. Qed.
