(* C14 — Sets and maps behave like sorted dictionaries under any update history.
   Model: Michelson/Collections.v (SetType / MapType of pytezos as lists of items, the operations as
   written: sorted() insertion, filter, the four UPDATE branches, GET_AND_UPDATE, MEM, SIZE, ITER/MAP
   order, check_constraints for literals), over ANY key type whose [==] ([eqb]) decides equality and
   whose [<] ([ltb]) is a strict total order ([key_order]).  C14_comparable_keys discharges
   [key_order] for pytezos' == and < on every comparable Michelson type (C03), composite keys
   included.  Histories are unbounded lists of operations; literals are operations too. *)
From Coq Require Import List ZArith Bool Sorted Permutation.
From PV Require Import Base.Bytes Base.Result Michelson.Compare Michelson.Collections
  Proofs.Collections_proofs Proofs.Compare_proofs.
Import ListNotations.

Section C14.
  Variables K V : Type.
  Variables eqb ltb : K -> K -> bool.
  Hypothesis KO : key_order eqb ltb.

  Let lt (a b : K) : Prop := ltb a b = true.
  Let E := proj1 KO.
  Let I := proj1 (proj2 KO).
  Let Tr := proj1 (proj2 (proj2 KO)).
  Let To := proj2 (proj2 (proj2 KO)).

  (* strict sortedness (hence no duplicates) is an invariant of every history *)
  Theorem C14_history_sorted :
    (forall ops : list (set_op K), StronglySorted lt (set_run eqb ltb ops) /\ NoDup (set_run eqb ltb ops)) /\
    (forall ops : list (map_op K V),
        StronglySorted lt (keys (map_run eqb ltb ops)) /\ NoDup (keys (map_run eqb ltb ops))).
  Proof.
    split; intro ops.
    - pose proof (set_history_sorted K eqb ltb E I Tr To ops) as S. split; [exact S|].
      apply (SS_NoDup K ltb I), S.
    - pose proof (map_history_sorted K V eqb ltb E I Tr To ops) as S. split; [exact S|].
      apply (SS_NoDup K ltb I), S.
  Qed.

  (* MEM / GET / GET_AND_UPDATE after any history answer like the reference dictionary
     (a function K -> option V, resp. K -> bool, updated pointwise) *)
  Theorem C14_refines_dict :
    (forall (ops : list (set_op K)) x, set_contains eqb x (set_run eqb ltb ops) = ms_run eqb ltb ops x) /\
    (forall (ops : list (map_op K V)) k, map_get eqb k (map_run eqb ltb ops) = d_run eqb ltb ops k) /\
    (forall (ops : list (map_op K V)) k,
        map_mem eqb k (map_run eqb ltb ops) = match d_run eqb ltb ops k with Some _ => true | None => false end) /\
    (forall (ops : list (map_op K V)) k vo,
        fst (map_update eqb ltb k vo (map_run eqb ltb ops)) = d_run eqb ltb ops k).
  Proof.
    split; [apply (set_refines K eqb ltb E I Tr To)|].
    split; [apply (map_refines K V eqb ltb E I Tr To)|].
    split; [apply (map_mem_refines K V eqb ltb E I Tr To) | apply (get_and_update_prev K V eqb ltb E I Tr To)].
  Qed.

  (* SIZE and iteration order: the items list IS the strictly sorted listing of the reference —
     any strictly sorted list with the reference's lookups equals it (so its length is the number
     of bound keys and ITER / MAP visit the keys in increasing order) *)
  Theorem C14_iteration_is_sorted_listing :
    (forall (ops : list (set_op K)) r, StronglySorted lt r ->
        (forall x, set_contains eqb x r = ms_run eqb ltb ops x) -> set_run eqb ltb ops = r) /\
    (forall (ops : list (map_op K V)) r, StronglySorted lt (keys r) ->
        (forall k, map_get eqb k r = d_run eqb ltb ops k) -> map_run eqb ltb ops = r).
  Proof.
    split.
    - apply (set_canonical K eqb ltb E I Tr To).
    - apply (map_canonical K V eqb ltb E I Tr To).
  Qed.

  (* literals: accepted unchanged iff strictly increasing; otherwise rejected, and "not strictly
     increasing" means an adjacent pair is equal (duplicate) or descending (unsorted) *)
  Theorem C14_literal_rejects :
    (forall l : list K, set_literal eqb ltb l = if incr ltb l then Ok l else Reject) /\
    (forall l : list (K * V), map_literal eqb ltb l = if incr ltb (keys l) then Ok l else Reject) /\
    (forall l : list K, incr ltb l = true <-> StronglySorted lt l) /\
    (forall l : list K, incr ltb l = false <->
        exists p x y q, l = p ++ x :: y :: q /\ (x = y \/ lt y x)).
  Proof.
    split; [apply (set_literal_spec K eqb ltb E I Tr To)|].
    split; [apply (map_literal_spec K V eqb ltb E I Tr To)|].
    split; [apply (incr_SS K ltb Tr) | apply (incr_false K ltb I Tr To)].
  Qed.

  (* MAP over a map never fails and keeps every key; UPDATE/GET_AND_UPDATE change one binding *)
  Theorem C14_map_keeps_keys : forall (ops : list (map_op K V)) f,
    map_map eqb ltb f (map_run eqb ltb ops)
    = Ok (map (fun kv => (fst kv, f (fst kv) (snd kv))) (map_run eqb ltb ops)).
  Proof.
    intros ops f. apply (map_map_ok K V eqb ltb E I Tr To).
    apply (map_history_sorted K V eqb ltb E I Tr To).
  Qed.

  (* What is assumed of Python's sorted(): ONLY that, on a list whose keys are pairwise distinct, it
     returns a permutation of its input whose keys are non-descending.  Any such function [srt]
     - coincides with the model's insertion sort wherever the code calls sorted() (uniqueness of the
       sorted permutation under a strict total order),
     - gives the same check_constraints (the duplicate test comes first, as in pytezos),
     - and set.py / map.py written with [srt] ([set_step_g], [map_step_g]) produce exactly the
       model's collections after every history — so all theorems above hold for them. *)
  Theorem C14_sorted_needs_only_sorted_permutation :
    forall srt : (forall A : Type, (A -> K) -> list A -> list A),
    (forall A (key : A -> K) l, NoDup (map key l) ->
       Permutation (srt A key l) l /\ StronglySorted (fun a b => ltb b a = false) (map key (srt A key l))) ->
    (forall A (key : A -> K) l, NoDup (map key l) -> srt A key l = sorted_by ltb key l) /\
    (forall ks, check_g K eqb srt ks = check_constraints eqb ltb ks) /\
    (forall ops, fold_left (set_step_g K eqb srt) ops [] = set_run eqb ltb ops) /\
    (forall ops : list (map_op K V), fold_left (map_step_g K V eqb srt) ops [] = map_run eqb ltb ops).
  Proof.
    intros srt OK. split; [|split; [|split]].
    - intros A key l N. apply (srt_is_sorted_by K ltb); first [exact E | exact I | exact Tr | exact To | assumption].
    - intro ks. apply (check_g_eq K eqb ltb); first [exact E | exact I | exact Tr | exact To | assumption].
    - intro ops. apply (set_run_g_eq K eqb ltb); first [exact E | exact I | exact Tr | exact To | assumption].
    - intro ops. apply (map_run_g_eq K V eqb ltb); first [exact E | exact I | exact Tr | exact To | assumption].
  Qed.

  (* uniqueness itself: any permutation of a duplicate-free list that is weakly sorted IS the insertion sort *)
  Theorem C14_sorted_permutation_unique : forall A (key : A -> K) (l l' : list A),
    NoDup (map key l) -> Permutation l' l ->
    StronglySorted (fun a b => ltb b a = false) (map key l') -> l' = sorted_by ltb key l.
  Proof.
    intros A key l l' N P W. apply (sorted_perm_unique K ltb); first [exact I | exact Tr | exact To | assumption].
  Qed.
End C14.

(* instruction-level scripts (the form the correspondence run executes): the state and observation
   recorded for an instruction are the step taken from the state its prefix's history leads to *)
Theorem C14_script_follows_history : forall K (eqb ltb : K -> K -> bool) p i q,
  nth_error (set_script eqb ltb [] (p ++ i :: q)) (length p)
  = Some (set_instr_step eqb ltb (set_run eqb ltb (ops_of set_instr_op p)) i) /\
  forall p' i' q',
  nth_error (map_script eqb ltb [] (p' ++ i' :: q')) (length p')
  = Some (map_instr_step eqb ltb (map_run eqb ltb (ops_of map_instr_op p')) i').
Proof.
  intros. split; [apply set_script_nth | intros; apply map_script_nth].
Qed.

(* every comparable Michelson type, nested arbitrarily, is a legitimate key type: pytezos' == and <
   on its well-typed values satisfy [key_order] *)
Theorem C14_comparable_keys : forall T, texts_ok T -> forall t, key_order (t_eqb T t) (t_ltb T t).
Proof.
  intros T TOK t. split; [apply t_eqb_spec, TOK|]. split; [apply t_ltb_irrefl, TOK|].
  split; [apply t_ltb_trans, TOK | apply t_ltb_total, TOK].
Qed.

Print Assumptions C14_sorted_needs_only_sorted_permutation.
Print Assumptions C14_sorted_permutation_unique.
Print Assumptions C14_history_sorted.
Print Assumptions C14_refines_dict.
Print Assumptions C14_iteration_is_sorted_listing.
Print Assumptions C14_literal_rejects.
Print Assumptions C14_map_keeps_keys.
Print Assumptions C14_script_follows_history.
Print Assumptions C14_comparable_keys.

(* ---- non-vacuity: integers with Z.eqb / Z.ltb form a key order; a concrete history *)
Example C14_Z_key_order : key_order Z.eqb Z.ltb.
Proof.
  split; [apply Z.eqb_eq|]. split; [apply Z.ltb_irrefl|]. split.
  - intros a b c. rewrite !Z.ltb_lt. apply Z.lt_trans.
  - intros a b. rewrite !Z.ltb_lt. destruct (Z.lt_trichotomy a b) as [H|[H|H]]; auto.
Qed.

Example C14_history_example :
  map_run Z.eqb Z.ltb
    [MUpdate 5 (Some 50); MUpdate 1 (Some 10); MGetAndUpdate 3 (Some 30); MUpdate 5 None;
     MMap (fun k v => k + v); MLiteral [(2, 0); (2, 1)]; MUpdate 3 (Some 7)]%Z
  = [(1, 11); (3, 7)]%Z.
Proof. vm_compute. reflexivity. Qed.
