(* C08 — key import, export and address derivation are consistent.

   Models: Client/KeyStore.v (+ Client/KeyGlue.v).  Native cryptography is an oracle [P : prims]; the theorems
   hold for EVERY oracle satisfying [store_laws P] (libsodium's secret key determines its seed and public key;
   secretbox_open inverts secretbox and adds 16 bytes; blake2b returns the requested number of bytes; public
   points have the curve's length; base58check laws) resp. "sha256 returns 32 bytes" and "word list indices are
   below 2048".  That the derived public key equals an independent implementation's is a property of the native
   libraries and is only TESTED (harness oracle (B)); in this sense C08 is proved PARTIALLY: the glue for all
   keys, passphrases, salts and word sequences, not the cryptography. *)
From Coq Require Import String.
From Coq Require Import List NArith Bool.
From Coq.Strings Require Import Byte.
From PV Require Import Base.Bytes Base.Result Client.KeyGlue Client.KeyStore Proofs.KeyGlue_proofs Proofs.KeyStore_proofs.
Import ListNotations.

(* public_key_hash = base58check (tz1/tz2/tz3/tz4 binary prefix ++ blake2b-160 of the public point): 36 characters
   starting with tz1 / tz2 / tz3 / tz4 according to the curve. *)
Theorem C08_pkh_is_blake2b160 : forall P, store_laws P -> forall k c, ktag k = curve_tag c ->
  let e := b58enc P (r_bin (pkh_row c) ++ blake2b P 20 (pub k)) in
  public_key_hash P k = Ok (str_of e) /\ length e = 36 /\ starts_with (r_txt (pkh_row c)) e = true.
Proof. exact public_key_hash_formula. Qed.
Print Assumptions C08_pkh_is_blake2b160.

(* HASH_KEY on the key's public key text pushes the key's public key hash. *)
Theorem C08_hash_key_agrees : forall P, store_laws P -> forall c pk sec pks, length pk = pklen c ->
  public_key P (mkkey pk sec (curve_tag c)) = Ok pks ->
  hash_key P pks = public_key_hash P (mkkey pk sec (curve_tag c)).
Proof. exact hash_key_agrees. Qed.
Print Assumptions C08_hash_key_agrees.

(* Exporting the public key and importing it yields the public half of the key. *)
Theorem C08_public_key_export_import : forall P, store_laws P -> forall c pk sec pass, length pk = pklen c ->
  exists pks, public_key P (mkkey pk sec (curve_tag c)) = Ok pks /\
              from_encoded_key P (PS pks) pass = Ok (mkkey pk None (curve_tag c)).
Proof. exact public_export_import. Qed.
Print Assumptions C08_public_key_export_import.

(* Plain export (no passphrase, or an empty str / bytes one), for all four curves, with ed25519_seed true or false
   (Ed25519: the 32-byte seed resp. the 64-byte secret key is exported), then import with any passphrase argument:
   the same key (public point, secret exponent, curve). [se] is the exponent / seed given to from_secret_exponent:
   32 bytes, or for Ed25519 also a 64-byte libsodium secret key that is the expansion of a seed. *)
Theorem C08_export_import_plain : forall P, store_laws P -> forall c se pk sk pass pass' ed_seed salt,
  keypair P c se pk sk -> (c <> Ed -> length se = 32) -> truthy pass = false ->
  exists s, secret_key P (mkkey pk (Some sk) (curve_tag c)) pass ed_seed salt = Ok s /\
            from_encoded_key P (PS s) pass' = Ok (mkkey pk (Some sk) (curve_tag c)).
Proof. exact export_import_plain. Qed.
Print Assumptions C08_export_import_plain.

(* Encrypted export with any non-empty passphrase p (str -> UTF-8, or bytes) and any 8-byte salt, then import with a
   passphrase p' denoting the same bytes (the same str, or its UTF-8 bytes, or conversely): the same key. *)
Theorem C08_export_import_encrypted : forall P, store_laws P -> forall c se pk sk p p' w salt,
  keypair P c se pk sk -> (c <> Ed -> length se = 32) -> length salt = 8 ->
  truthy (Some p) = true -> pw_bytes p = Some w -> pw_bytes p' = Some w ->
  exists s, secret_key P (mkkey pk (Some sk) (curve_tag c)) (Some p) true salt = Ok s /\
            from_encoded_key P (PS s) (Some p') = Ok (mkkey pk (Some sk) (curve_tag c)).
Proof. exact export_import_encrypted. Qed.
Print Assumptions C08_export_import_encrypted.

(* The string manipulations of validate_mnemonic (bin / zfill(11) / slices l//33*32 and -l//33 / int(.,2) / hex / zfill /
   unhexlify / sha256 hexdigest / int(.,16) / bin / zfill(256)) accept a sequence of word indices exactly when the
   BIP-39 rule holds: the word count is 12, 15, 18, 21 or 24 and the 11-bit groups spell ENT || CS for some entropy of
   16, 20, 24, 28 or 32 bytes, CS being the first ENT/32 bits of SHA-256(ENT). *)
Theorem C08_mnemonic_iff_bip39 : forall P, (forall x, length (sha256 P x) = 32) -> forall idx,
  Forall (fun i => (i < 2048)%N) idx ->
  (existsb (Nat.eqb (length idx)) valid_word_counts = true /\ mnemonic_check P idx = true) <-> bip39_valid P idx.
Proof. exact mnemonic_iff. Qed.
Print Assumptions C08_mnemonic_iff_bip39.

(* ... and validate_mnemonic as a whole (normalise + split, word list lookup, count, checksum) returns exactly when
   every word is in the list and the indices satisfy the BIP-39 rule. *)
Theorem C08_validate_mnemonic_iff_bip39 : forall P mn,
  (forall x, length (sha256 P x) = 32) -> (forall w i, word_index P w = Some i -> (i < 2048)%N) ->
  (validate_mnemonic P mn = Ok tt <->
   exists idx, all_some (map (word_index P) (nf_split P mn)) = Some idx /\ bip39_valid P idx).
Proof. exact validate_mnemonic_bip39. Qed.
Print Assumptions C08_validate_mnemonic_iff_bip39.

(* from_mnemonic is the key of the first 32 bytes of Mnemonic.to_seed(mnemonic, email + passphrase); with validate=True it
   succeeds only on mnemonics validate_mnemonic accepts. *)
Theorem C08_from_mnemonic_is_key_of_seed : forall P mn pw em v tag k,
  from_mnemonic P mn pw em v tag = Ok k ->
  exists seed, to_seed P (mn_string mn) (em ++ pw) = Some seed /\ key_of_seed P tag seed = Ok k /\
               (v = true -> validate_mnemonic P (mn_string mn) = Ok tt).
Proof. exact from_mnemonic_of_seed. Qed.
Print Assumptions C08_from_mnemonic_is_key_of_seed.

(* Determinism: the result depends only on the mnemonic text (a word list and its ' '.join give the same), on
   email + passphrase and on the curve; no randomness oracle occurs in from_mnemonic. *)
Theorem C08_from_mnemonic_deterministic : forall P mn mn' pw pw' em em' v v' tag,
  mn_string mn = mn_string mn' -> em ++ pw = em' ++ pw' ->
  (v = v' \/ validate_mnemonic P (mn_string mn) = Ok tt) ->
  from_mnemonic P mn pw em v tag = from_mnemonic P mn' pw' em' v' tag.
Proof. exact from_mnemonic_deterministic. Qed.
Print Assumptions C08_from_mnemonic_deterministic.

(* ---- non-vacuity: "abandon x 11 + about" (indices 0 .. 0 3) with the real SHA-256 of sixteen zero bytes ---- *)
Definition ex_sha : otable :=
  [("sha256"%string, [AB (repeat x00 16)], Ret [AB (hx "374708fff7719dd5979ec875d56cd2286f6d3cf7ec317a3b25632aab28ec37bb")])].

Example C08_example_mnemonic :
  mnemonic_check (prims_of ex_sha) (repeat 0%N 11 ++ [3%N]) = true /\
  mnemonic_check (prims_of ex_sha) (repeat 0%N 11 ++ [4%N]) = false /\
  flat_map (fixed 2 11) (repeat 0%N 11 ++ [3%N]) = bip39_bits (prims_of ex_sha) (repeat x00 16).
Proof. vm_compute. auto. Qed.
