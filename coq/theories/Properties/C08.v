(* C08 — key import, export and address derivation are consistent (glue level; native cryptography is an oracle). *)
From Coq Require Import String.
From Coq Require Import List NArith Bool.
From Coq.Strings Require Import Byte.
From PV Require Import Base.Bytes Base.Result Client.KeyGlue Client.KeyStore Proofs.KeyGlue_proofs Proofs.KeyStore_proofs.
Import ListNotations.

(* public_key_hash = base58check (tz1/tz2/tz3/tz4 binary prefix ++ blake2b-160 of the public point): 36 characters
   starting with tz1 / tz2 / tz3 / tz4 according to the curve. *)
Theorem C08_pkh_is_blake2b160 : forall P, store_laws P -> forall k c, ktag k = curve_tag c ->
  let e := b58enc P (r_bin (pkh_row c) ++ blake2b P 20 (pub k)) in
  public_key_hash P k = Ok (str_of e) /\ length e = 36 /\ starts_with (r_txt (pkh_row c)) e = true.
Proof. exact public_key_hash_formula. Qed.
Print Assumptions C08_pkh_is_blake2b160.
