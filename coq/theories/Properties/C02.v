(* C02 — values produced by execution have the statically expected type.

   [rt_type v] is what `type(v).as_micheline_expr()` prints for a pytezos value (annotations erased); it is read
   off the classes the value objects carry (Michelson/Instr.v [pval]). [typecheck] gives the static stack type.

   FULL STATEMENT (the property): forall fuel env code st st' inputs stf,
       typecheck code st = Some (Typed st') -> stack_typed inputs st -> py_eval env fuel code (mkst [] inputs) = PDone stf ->
       Forall2 (fun v t => rt_type v = t) (view stf) st'          (and hence the storage returned by run_code).
   PROVED below ([_partial]): the statement for every instruction of Michelson/Instr.v (sets and maps with UPDATE, GET_AND_UPDATE,
   MAP, literals included; see C01.v) and for programs accepted by [typecheck_nr] (= the typing rules plus: every MAP body
   returns the element/value type it received).
   REFUTED for [typecheck] itself: `PUSH (list nat) {} ; MAP { INT }` leaves a `list nat` where the typing rules say
   `list int` (known finding empty-map-retype, control.py MapInstruction: `res = src  # TODO`). *)
From Coq Require Import List ZArith Bool Arith.
From PV Require Import Base.Bytes Michelson.Instr Michelson.Typing Michelson.RefSem Michelson.PyStack Michelson.PySem.
From PV Require Import Proofs.Instr_proofs Proofs.PyStack_proofs Proofs.PySem_proofs.
Import ListNotations.

(* every result slot has the static type, whatever the hidden prefix; the prefix itself is untouched *)
Theorem C02_preservation_partial : forall e, env_okb e = true -> forall fuel code st st' hid inputs stf,
  in_fragment code -> typecheck_nr code st = Some (Typed st') -> stack_typed inputs st ->
  py_eval e fuel code (mkst hid inputs) = PDone stf ->
  Forall2 (fun v t => rt_type v = t) (view stf) st'.
Proof. exact c02_preservation. Qed.
Print Assumptions C02_preservation_partial.

(* ... in the strong form: classes are right at every depth (inside pairs, options, unions, list elements) and naturals
   are non-negative *)
Theorem C02_deep_preservation_partial : forall e, env_okb e = true -> forall fuel code st R hid inputs stf,
  in_fragment code -> typecheck_nr code st = Some R -> stack_typed inputs st ->
  py_eval e fuel code (mkst hid inputs) = PDone stf ->
  hidden stf = hid /\ prot stf = length hid /\ exists st', R = Typed st' /\ stack_typed (view stf) st'.
Proof. exact c01_frame. Qed.
Print Assumptions C02_deep_preservation_partial.

(* a program whose static type is "always fails" never returns *)
Theorem C02_failing_never_returns_partial : forall e, env_okb e = true -> forall fuel code st hid inputs stf,
  in_fragment code -> typecheck_nr code st = Some Failing -> stack_typed inputs st ->
  py_eval e fuel code (mkst hid inputs) <> PDone stf.
Proof. exact c01_failing_never_returns. Qed.
Print Assumptions C02_failing_never_returns_partial.

(* deep typing implies the observable one *)
Theorem C02_typed_rt_type : forall v t, pv_typedb v t = true -> rt_type v = t.
Proof. exact typed_rt_type. Qed.
Print Assumptions C02_typed_rt_type.

(* literals, set and map literals included ([wf_ty]: set elements / map keys of comparable type): PUSH of a well-typed literal produces a value of exactly that type that erases to the literal *)
Theorem C02_push_literal : forall d t, data_has_type t d = true -> wf_ty t = true ->
  exists v, py_of_data t d = Some v /\ pv_typedb v t = true /\ erase v = value_of_data d.
Proof. exact py_of_data_typed_wf. Qed.
Print Assumptions C02_push_literal.

(* per-instruction preservation: every instruction without sub-programs returns values of the static types *)
Theorem C02_instr_keeps_types : forall e, env_okb e = true -> forall i k fn s s1 vis,
  py_simple e i = Some (k, fn) -> tc_simple true i s = Some s1 -> styped vis s ->
  exists args rest, vis = args ++ rest /\ length args = k /\
    match ref_simple e i (map erase vis) with
    | Done r => exists outs, fn args = POk outs /\ map erase (outs ++ rest) = r /\ styped (outs ++ rest) s1
    | RtError => fn args = PErr
    | _ => False
    end.
Proof. exact simple_agree. Qed.
Print Assumptions C02_instr_keeps_types.

(* MAP over a NON-EMPTY map (control.py MapInstruction + MapType.from_items; any comparable key type, composite keys
   included): whatever values the body returns (all of one type b), the rebuilt map has exactly the keys of the source,
   the key type of the source and value type b, and passes from_items' checks *)
Theorem C02_map_keeps_key_types : forall kt vt b l ys,
  pv_typedb (PMap kt vt l) (TMap kt vt) = true -> Forall (fun y => pv_typedb y b = true) ys -> length ys = length l -> l <> [] ->
  map_from_items (py_rekey l ys) = Some (PMap kt b (py_rekey l ys)) /\
  pv_typedb (PMap kt b (py_rekey l ys)) (TMap kt b) = true /\
  map py_key (py_rekey l ys) = map py_key l.
Proof. exact map_map_types. Qed.
Print Assumptions C02_map_keeps_key_types.

(* UPDATE on sets and UPDATE / GET_AND_UPDATE on maps keep the collection well-typed: element/key/value classes, and the
   Python list stays strictly sorted (what check_constraints demands), for every comparable key type *)
Theorem C02_set_update_keeps_type : forall t x (b : bool) l, typed x t -> comparable t = true -> typed (PSet t l) (TSet t) ->
  typed (PSet t (if b then py_set_add x l else py_set_remove x l)) (TSet t).
Proof. intros t x b l Hx Hc Hs. exact (proj2 (set_update_agree t x b l Hx Hc Hs)). Qed.
Print Assumptions C02_set_update_keeps_type.

Theorem C02_map_update_keeps_type : forall kt vt k ov l, typed k kt -> comparable kt = true -> typed ov (TOption vt) ->
  typed (PMap kt vt l) (TMap kt vt) ->
  typed (PMap kt vt (py_map_update k (match ov with PSome v => Some v | _ => None end) l)) (TMap kt vt).
Proof. intros kt vt k ov l Hk Hc Ho Hm. exact (proj2 (map_update_agree kt vt k ov l Hk Hc Ho Hm)). Qed.
Print Assumptions C02_map_update_keeps_type.

(* the defect: MAP over an empty list keeps the source type *)
Theorem C02_preservation_refuted : exists e fuel code st st' inputs stf,
  env_okb e = true /\ in_fragment code /\ typecheck code st = Some (Typed st') /\ stack_typed inputs st /\
  py_eval e fuel code (mkst [] inputs) = PDone stf /\
  ~ Forall2 (fun v t => rt_type v = t) (view stf) st'.
Proof. exact c02_refuted. Qed.
Print Assumptions C02_preservation_refuted.

(* non-vacuity: a MAP that keeps the element type, on an empty and on a non-empty list *)
Example C02_example :
  typecheck_nr ex_code2 [TList TNat] = Some (Typed [TNat; TList TNat]) /\
  obs_of (py_eval ex_env 20 ex_code2 (mkst [] [PList TNat []])) = ODone [PNat 0; PList TNat []] /\
  obs_of (py_eval ex_env 20 ex_code2 (mkst [] [PList TNat [PNat 4; PNat 0]])) = ODone [PNat 2; PList TNat [PNat 5; PNat 1]].
Proof. exact (conj ex2_tc (conj ex2_py_empty ex2_py)). Qed.
