(* C32 — View definitions are accepted exactly when Tezos accepts them.
   Model: Michelson/View.v (mirrors ViewSection.create_type / check_code of
   /repo/src/pytezos/michelson/sections/view.py); the statement is about views whose four parts
   parse as Micheline/Michelson syntax (the harness only feeds such views).

   [spec_reject name code] is the rejection rule of the property text, stated independently of the
   traversal: the name is longer than 31 or has a character outside [a-zA-Z0-9_.%@]; or SELF occurs
   somewhere in the code; or TRANSFER_TOKENS / CREATE_CONTRACT / SET_DELEGATE occurs at a position
   none of whose ancestors opens a lambda body.  [Occ intro t b code]: primitive t occurs in code and b
   tells whether an ancestor satisfies intro.
   Which nodes open a lambda body: LAMBDA, LAMBDA_REC, PUSH (instructions inside a pushed value can
   only be lambda literals, also when the literal sits inside a pushed pair/list/option) and — as
   pytezos walks types too — the type constructor `lambda`.  The last one is immaterial for programs
   (a type contains no instructions): C32_accept_iff_programs states the rule with the three
   introducers of the property text for every tree whose `lambda` types are free of the restricted
   instructions. No bound on name length, tree size or depth. *)
From Coq Require Import List NArith Bool.
From Coq.Strings Require Import Byte.
From PV Require Import Base.Bytes Codec.Micheline Codec.Prims Michelson.View Proofs.View_proofs.
Import ListNotations.

Theorem C32_accept_iff : forall name code,
  view_accepts name code = true <-> ~ spec_reject name code.
Proof. exact accept_iff. Qed.
Print Assumptions C32_accept_iff.

Theorem C32_accept_iff_programs : forall name code,
  types_clean code = true ->
  (view_accepts name code = true <-> ~ spec_reject_gen lambda_intro3 name code).
Proof. exact accept_iff_programs. Qed.
Print Assumptions C32_accept_iff_programs.

(* the name rule on its own: accepted names are exactly those of at most 31 allowed characters *)
Theorem C32_name_rule : forall name,
  check_name name = true <-> (length name <= 31 /\ forall c, In c name -> allowed_char c = true).
Proof. exact name_rule. Qed.
Print Assumptions C32_name_rule.

(* the allowed characters are exactly letters, digits and _ . % @ (finite sweep over all 256 bytes) *)
Theorem C32_allowed_chars : forall c,
  allowed_char c = true <->
  In c [x61;x62;x63;x64;x65;x66;x67;x68;x69;x6a;x6b;x6c;x6d;x6e;x6f;x70;x71;x72;x73;x74;x75;x76;x77;x78;x79;x7a;
        x41;x42;x43;x44;x45;x46;x47;x48;x49;x4a;x4b;x4c;x4d;x4e;x4f;x50;x51;x52;x53;x54;x55;x56;x57;x58;x59;x5a;
        x30;x31;x32;x33;x34;x35;x36;x37;x38;x39; x5f; x2e; x25; x40].
Proof. exact allowed_chars_list. Qed.
Print Assumptions C32_allowed_chars.

(* ---- non-vacuity *)
Definition ex_name : bytes := [x67; x65; x74; x5f; x78].        (* "get_x" *)
Definition ex_code_ok : node :=
  NSeq [NPrim x20 [] []; NPrim T_LAMBDA [NPrim x6c [] []; NPrim x6c [] []; NSeq [NPrim T_TRANSFER_TOKENS [] []]] [];
        NPrim T_PUSH [NPrim T_lambda [NPrim x6c [] []; NPrim x6c [] []] []; NSeq [NPrim T_SET_DELEGATE [] []]] []].
Definition ex_code_bad : node := NSeq [NPrim x1f [NSeq [NPrim T_TRANSFER_TOKENS [] []]] []].   (* DIP { TRANSFER_TOKENS } *)

Example C32_example :
  view_accepts ex_name ex_code_ok = true /\ types_clean ex_code_ok = true
  /\ view_accepts ex_name ex_code_bad = false
  /\ view_accepts ex_name (NSeq [NPrim T_LAMBDA [NSeq [NPrim T_SELF [] []]] []]) = false
  /\ view_accepts (ex_name ++ [x21]) ex_code_ok = false
  /\ view_accepts (repeat x61 31) ex_code_ok = true /\ view_accepts (repeat x61 32) ex_code_ok = false.
Proof. repeat split; vm_compute; reflexivity. Qed.
