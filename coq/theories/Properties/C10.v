(* C10 — Addresses, keys, key hashes, signatures and chain ids survive binary form.
   Model: Codec/Domain.v.  Values are (kind, payload); "well-formed" fixes the payload length
   (20-byte hashes, 32/33/33/48-byte keys, 64/96-byte signatures, 4-byte chain ids).
   The Base58Check text of a value and the text-level Python functions are tied to this level
   by the C10_text_* theorems (through C09's round trip). *)
From Coq Require Import String List NArith Bool Arith.
From Coq.Strings Require Import Byte.
From PV Require Import Base.Bytes Base.Result Codec.Base58 Codec.Domain Proofs.Base58_proofs Proofs.Domain_proofs.
Import ListNotations.

(* every address kind (tz1-tz4, KT1, txr1, sr1), every 20-byte hash *)
Theorem C10_address_roundtrip : forall a, wf_address a -> unforge_address (forge_address false a) = Ok a.
Proof. exact unforge_forge_address. Qed.
Print Assumptions C10_address_roundtrip.

(* key hashes (21-byte form), every curve, every digest — including digests starting 00..03 or
   ending 00, the shape defect #3 misread *)
Theorem C10_key_hash_roundtrip : forall a, wf_address a -> is_implicit (fst a) = true ->
  unforge_key_hash (forge_key_hash a) = Ok a.
Proof. exact unforge_forge_key_hash. Qed.
Print Assumptions C10_key_hash_roundtrip.

(* with or without entrypoint, every non-empty entrypoint name ("default" = none) *)
Theorem C10_contract_roundtrip : forall a ep, wf_address a -> ep <> [] ->
  unforge_contract (forge_contract (a, ep)) = Ok (a, ep).
Proof. exact unforge_forge_contract. Qed.
Print Assumptions C10_contract_roundtrip.

Theorem C10_key_roundtrip : forall k, wf_public_key k -> unforge_public_key (forge_public_key k) = Ok k.
Proof. exact unforge_forge_public_key. Qed.
Print Assumptions C10_key_roundtrip.

(* signatures come back with the same raw bytes (SignatureType equality), in the generic
   notation of their length *)
Theorem C10_signature_roundtrip : forall s, wf_signature s ->
  exists s', unforge_signature (forge_signature s) = Ok s' /\ same_signature s s' /\ wf_signature s'.
Proof.
  intros s Hw. eexists. split; [apply unforge_forge_signature, Hw|]. split; [reflexivity|].
  destruct s as [[] p]; exact Hw.
Qed.
Print Assumptions C10_signature_roundtrip.

Theorem C10_chain_id_roundtrip : forall c, wf_chain_id c -> unforge_chain_id (forge_chain_id c) = Ok c.
Proof. exact unforge_forge_chain_id. Qed.
Print Assumptions C10_chain_id_roundtrip.

(* no kind confusion, writing side: two well-formed addresses/key hashes with the same bytes
   are the same kind and hash (and the same form) *)
Theorem C10_no_kind_confusion_forge : forall b1 b2 a1 a2, wf_address a1 -> wf_address a2 ->
  forge_address b1 a1 = forge_address b2 a2 ->
  (b1 = false \/ is_implicit (fst a1) = true) -> (b2 = false \/ is_implicit (fst a2) = true) ->
  b1 = b2 /\ a1 = a2.
Proof. exact forge_address_injective. Qed.
Print Assumptions C10_no_kind_confusion_forge.

(* no kind confusion, reading side: whatever unforge_address accepts is exactly the optimized
   form of the (kind, hash) it returns — for ALL byte strings *)
Theorem C10_no_kind_confusion_unforge : forall d a, unforge_address d = Ok a ->
  wf_address a /\ forge_address (Nat.eqb (length d) 21) a = d.
Proof. exact unforge_address_sound. Qed.
Print Assumptions C10_no_kind_confusion_unforge.

Theorem C10_key_unforge_exact : forall d k, unforge_public_key d = Ok k -> wf_public_key k /\ forge_public_key k = d.
Proof. exact unforge_public_key_sound. Qed.
Print Assumptions C10_key_unforge_exact.

(* blind_unpack's first-match cascade never mistakes one category for another *)
Theorem C10_blind_unpack_kinds :
  (forall c, wf_chain_id c -> blind_unpack (forge_chain_id c) = BChain c) /\
  (forall b a, wf_address a -> (b = false \/ is_implicit (fst a) = true) -> blind_unpack (forge_address b a) = BAddr a) /\
  (forall k, wf_public_key k -> blind_unpack (forge_public_key k) = BKey k) /\
  (forall s, wf_signature s -> blind_unpack (forge_signature s) = BSig ((match fst s with BLsig => BLsig | _ => Sig end), snd s)).
Proof.
  repeat split; [apply blind_chain_id | apply blind_address | apply blind_public_key | apply blind_signature].
Qed.
Print Assumptions C10_blind_unpack_kinds.

(* ---- the text level: the real functions take and return Base58Check strings -------------------
   [text_env sha256 t]: sha256 has 32-byte output, the table passes C09's side conditions and has
   the rows forge.py names with binary prefixes of the hard-coded lengths 3 / 4. *)
Theorem C10_pinned_table_env : forall sha256, sha_ok sha256 -> text_env sha256 table43.
Proof. exact text_env43. Qed.
Print Assumptions C10_pinned_table_env.

(* every address / key hash has a string; forge_address on it gives the model's bytes, and
   unforge_address on those bytes gives back that very string *)
Theorem C10_text_address : forall sha256 t, text_env sha256 t ->
  forall tz_only a, wf_address a -> (tz_only = false \/ is_implicit (fst a) = true) ->
  exists s, address_text sha256 t a = Ok s /\
            forge_address_text sha256 tz_only s = Ok (forge_address tz_only a) /\
            unforge_address_text sha256 t (forge_address tz_only a) = Ok s.
Proof. exact text_address. Qed.
Print Assumptions C10_text_address.

Theorem C10_text_contract : forall sha256 t, text_env sha256 t ->
  forall c : contract, wf_address (fst c) -> snd c <> [] ->
  exists s, contract_text sha256 t c = Ok s /\
            forge_contract_text sha256 s = Ok (forge_contract c) /\
            unforge_contract_text sha256 t (forge_contract c) = Ok s.
Proof. exact text_contract. Qed.
Print Assumptions C10_text_contract.

Theorem C10_text_key : forall sha256 t, text_env sha256 t ->
  forall k, wf_public_key k ->
  exists s, public_key_text sha256 t k = Ok s /\
            forge_public_key_text sha256 s = Ok (forge_public_key k) /\
            unforge_public_key_text sha256 t (forge_public_key k) = Ok s.
Proof. exact text_public_key. Qed.
Print Assumptions C10_text_key.

(* a signature string in any notation forges to its raw bytes; those read back as a string (generic
   notation) that forges to the same raw bytes *)
Theorem C10_text_signature : forall sha256 t, text_env sha256 t ->
  forall sg s, wf_signature sg -> signature_text sha256 t sg = Ok s ->
  forge_base58_text sha256 t s = Ok (snd sg) /\
  exists s', unforge_signature_text sha256 t (snd sg) = Ok s' /\ forge_base58_text sha256 t s' = Ok (snd sg).
Proof. exact text_signature. Qed.
Print Assumptions C10_text_signature.

Theorem C10_text_chain_id : forall sha256 t, text_env sha256 t ->
  forall c s, chain_id_text sha256 t c = Ok s ->
  forge_base58_text sha256 t s = Ok c /\ unforge_chain_id_text sha256 t c = Ok s.
Proof. exact text_chain_id. Qed.
Print Assumptions C10_text_chain_id.

(* ---- the observation point of the property, T.from_micheline_value(T.from_value(x)
   .to_micheline_value(mode="optimized")), as a composition of the text-level models of
   from_value (normalisation + validator), the optimized writer and the optimized reader.
   [type_env]: sha_ok, all C09 side conditions on the table, the rows forge.py assumes. --------- *)
Theorem C10_pinned_type_env : forall sha256, sha_ok sha256 -> type_env sha256 table43.
Proof. exact type_env43. Qed.
Print Assumptions C10_pinned_type_env.

Theorem C10_observed_address : forall sha256 t, type_env sha256 t ->
  forall c : contract, wf_address (fst c) -> address_type_admits (fst (fst c)) = true -> snd c <> [] ->
  exists s, contract_text sha256 t c = Ok s /\ observe_address sha256 t s = Ok s.
Proof. intros sha t [H1 [H2 H3]]. exact (observe_address_ok sha t H1 H2 H3). Qed.
Print Assumptions C10_observed_address.

Theorem C10_observed_txr_address : forall sha256 t, type_env sha256 t ->
  forall c : contract, wf_address (fst c) -> fst (fst c) = Txr1 -> snd c <> [] ->
  exists s, contract_text sha256 t c = Ok s /\ observe_txr sha256 t s = Ok s.
Proof. intros sha t [H1 [H2 H3]]. exact (observe_txr_ok sha t H1 H2 H3). Qed.
Print Assumptions C10_observed_txr_address.

Theorem C10_observed_key_hash : forall sha256 t, type_env sha256 t ->
  forall a, wf_address a -> is_implicit (fst a) = true ->
  exists s, address_text sha256 t a = Ok s /\ observe_key_hash sha256 t s = Ok s.
Proof. intros sha t [H1 [H2 H3]]. exact (observe_key_hash_ok sha t H1 H2 H3). Qed.
Print Assumptions C10_observed_key_hash.

Theorem C10_observed_key : forall sha256 t, type_env sha256 t ->
  forall k, wf_public_key k -> exists s, public_key_text sha256 t k = Ok s /\ observe_key sha256 t s = Ok s.
Proof. intros sha t [H1 [H2 H3]]. exact (observe_key_ok sha t H1 H2 H3). Qed.
Print Assumptions C10_observed_key.

Theorem C10_observed_signature : forall sha256 t, type_env sha256 t ->
  forall sg s, wf_signature sg -> signature_text sha256 t sg = Ok s ->
  exists s', observe_signature sha256 t s = Ok s' /\ forge_base58_text sha256 t s' = Ok (snd sg).
Proof. intros sha t [H1 [H2 H3]]. exact (observe_signature_ok sha t H1 H2 H3). Qed.
Print Assumptions C10_observed_signature.

Theorem C10_observed_chain_id : forall sha256 t, type_env sha256 t ->
  forall c s, chain_id_text sha256 t c = Ok s -> observe_chain_id sha256 t s = Ok s.
Proof. intros sha t [H1 [H2 H3]]. exact (observe_chain_id_ok sha t H1 H2 H3). Qed.
Print Assumptions C10_observed_chain_id.

(* non-vacuity: the boundary digests *)
Example C10_example_boundary :
  unforge_key_hash (forge_key_hash (Tz2, x00 :: repeat x11 19)) = Ok (Tz2, x00 :: repeat x11 19) /\
  unforge_key_hash (forge_key_hash (Tz4, repeat x11 19 ++ [x00])) = Ok (Tz4, repeat x11 19 ++ [x00]) /\
  unforge_contract (forge_contract ((KT1, x03 :: repeat x00 19), tx "a%b")) = Ok ((KT1, x03 :: repeat x00 19), tx "a%b").
Proof. vm_compute. repeat split. Qed.

(* non-vacuity of [text_env] / [type_env]: a 32-byte-output function and the pinned table *)
Example C10_env_inhabited : type_env (fun _ => repeat x00 32) table43 /\ text_env (fun _ => repeat x00 32) table43.
Proof. split; [apply type_env43 | apply text_env43]; intro x; reflexivity. Qed.
