(* C15 — Big map operations and lazy diffs agree with a layered dictionary model.
   Model: Michelson/BigMap.v (BigMapType.get / update / __iter__ / aggregate_lazy_diff of pytezos with
   the context lookup get_big_map_value): a big_map value is a local layer (sorted [items], a set of
   [removed] keys) over the on-chain content [chain], which is indexed by the key hash [kh k]
   (= forge_script_expr(pack(k)), an oracle here).
   Specification: [eff lit ops] — the dictionary "literal entries over chain" with the history's
   updates applied pointwise; [apply_updates] — a diff applied entry by entry to a store indexed
   by key hash.  Histories are unbounded; the key type is any type with a [key_order] (all
   comparable Michelson types by C14_comparable_keys). *)
From Coq Require Import List ZArith Bool Sorted.
From PV Require Import Base.Bytes Base.Result Michelson.Compare Michelson.Collections Michelson.BigMap
  Proofs.Collections_proofs Proofs.BigMap_proofs.
Import ListNotations.

Section C15.
  Variables K V H : Type.
  Variables eqb ltb : K -> K -> bool.
  Variable heqb : H -> H -> bool.
  Variable kh : K -> H.
  Variable chain : H -> option V.
  Hypothesis KO : key_order eqb ltb.

  (* GET, MEM and the value returned by GET_AND_UPDATE after ANY history of UPDATE / GET_AND_UPDATE,
     on a big_map that starts as a (sorted) literal or as a bare id over arbitrary on-chain content,
     are those of the layered dictionary *)
  Theorem C15_refines_layered : forall lit ops k,
    StronglySorted (fun a b => ltb a b = true) (keys lit) ->
    bm_get eqb kh chain k (bm_run eqb ltb kh chain lit ops) = eff eqb kh chain lit ops k /\
    bm_mem eqb kh chain k (bm_run eqb ltb kh chain lit ops)
      = match eff eqb kh chain lit ops k with Some _ => true | None => false end /\
    forall vo, fst (bm_update eqb ltb kh chain k vo (bm_run eqb ltb kh chain lit ops)) = eff eqb kh chain lit ops k.
  Proof.
    intros lit ops k S. split; [apply (bm_get_refines K V H eqb ltb kh chain KO), S|].
    split; [apply (bm_mem_refines K V H eqb ltb kh chain KO), S|].
    intro vo. apply (bm_gau_prev K V H eqb ltb kh chain KO), S.
  Qed.

  (* the local layer stays well-formed: items strictly sorted by key, removed keys duplicate-free
     and disjoint from the items *)
  Theorem C15_layer_invariant : forall lit ops,
    StronglySorted (fun a b => ltb a b = true) (keys lit) ->
    let s := bm_run eqb ltb kh chain lit ops in
    StronglySorted (fun a b => ltb a b = true) (keys (bm_items s)) /\ NoDup (bm_removed s) /\
    (forall k, In k (bm_removed s) -> ~ In k (keys (bm_items s))).
  Proof. intros lit ops S. apply (bm_run_inv K V H eqb ltb kh chain KO), S. Qed.

  Hypothesis heqb_spec : forall a b, heqb a b = true <-> a = b.
  Hypothesis kh_inj : forall a b, kh a = kh b -> a = b.      (* no hash collision between keys *)

  (* the emitted diff, applied to the on-chain content, gives exactly the final dictionary at every
     key, and touches no hash outside its own entries *)
  Theorem C15_diff_applies : forall lit ops,
    StronglySorted (fun a b => ltb a b = true) (keys lit) ->
    let us := bm_updates kh (bm_run eqb ltb kh chain lit ops) in
    (forall k, apply_updates heqb us chain (kh k) = eff eqb kh chain lit ops k) /\
    (forall h, (forall u, In u us -> u_hash u <> h) -> apply_updates heqb us chain h = chain h).
  Proof.
    intros lit ops S us. split.
    - intro k. apply (diff_applies K V H eqb ltb heqb kh chain KO heqb_spec kh_inj), S.
    - intros h Hn. apply (diff_frame K V H heqb heqb_spec), Hn.
  Qed.

  (* each diff entry carries the hash of its own key (kh = script-expression hash of the packed key) *)
  Theorem C15_key_hash_is_script_expr : forall s : bigmap K V,
    Forall (fun u => u_hash u = kh (u_key u)) (bm_updates kh s) /\
    map (@u_key K V H) (bm_updates kh s) = keys (bm_items s) ++ bm_removed s.
  Proof.
    intro s. split; [apply updates_hash|].
    unfold bm_updates. rewrite map_app, !List.map_map. simpl. rewrite map_id. reflexivity.
  Qed.
End C15.

(* the instruction-list form evaluated in the correspondence run ends in the state of the history
   it stands for (and records bm_get / bm_mem / previous values along the way: bm_script_obs) *)
Theorem C15_script_follows_history : forall T khtbl chtbl lit is,
  snd (bm_script T khtbl chtbl (bm_init lit) is)
  = bm_run (py_eq T) (py_lt T) (lookup_val khtbl) (lookup_hash chtbl) lit (bm_ops_of is).
Proof. intros. apply bm_script_state. Qed.

Print Assumptions C15_script_follows_history.
Print Assumptions C15_refines_layered.
Print Assumptions C15_layer_invariant.
Print Assumptions C15_diff_applies.
Print Assumptions C15_key_hash_is_script_expr.

(* Several big_map values at once (two on-chain big_maps in one storage; DUP, then work on one copy):
   the state is a store of big_map values, each carrying its own id; [chain] takes the id.
   [slot_rel] says a value refines its own dictionary (same id, well-formed layer, GET = dictionary).
   For every history of UPDATE / GET_AND_UPDATE on any slot, DUP and DROP, starting from literals /
   bare ids: every value keeps answering like its OWN dictionary — a copy is unaffected by updates of
   the original and vice versa, and one id's on-chain content never shows up under another id.
   GET_AND_UPDATE's result on a slot is that slot's dictionary entry. *)
Theorem C15_store_refines_layered :
  forall K V H (eqb ltb : K -> K -> bool) (kh : K -> H) (chain : Z -> H -> option V), key_order eqb ltb ->
  forall (init : list (Z * list (K * V))),
    Forall (fun il => StronglySorted (fun a b => ltb a b = true) (keys (snd il))) init ->
  forall ops,
  let st := fold_left (s_step eqb ltb kh chain) ops
              (map (fun il => {| bv_id := fst il; bv_map := bm_init (snd il) |}) init) in
  let sp := fold_left (sd_step eqb) ops (map (fun il => sd_init eqb kh chain (fst il) (snd il)) init) in
  Forall2 (fun b d => bv_id b = fst d /\
                      (forall k, bv_get eqb kh chain k b = snd d k) /\
                      (forall k, bv_mem eqb kh chain k b = match snd d k with Some _ => true | None => false end) /\
                      (forall k vo, fst (bv_update eqb ltb kh chain k vo b) = snd d k)) st sp.
Proof.
  intros K V H eqb ltb kh chain KO init Hinit ops st sp.
  assert (F0 : Forall2 (slot_rel K V H eqb ltb kh chain)
                 (map (fun il => {| bv_id := fst il; bv_map := bm_init (snd il) |}) init)
                 (map (fun il => sd_init eqb kh chain (fst il) (snd il)) init)).
  { induction Hinit as [|il init Hil _ IH]; simpl; constructor; [|exact IH].
    apply (slot_init K V H eqb ltb kh chain), Hil. }
  pose proof (store_refines K V H eqb ltb kh chain KO ops _ _ F0) as F. fold st sp in F.
  clear F0. induction F as [|b d st' sp' R _ IH]; constructor; [|exact IH]. destruct R as [Hid [Iv R]].
  split; [exact Hid|]. split; [exact R|]. split.
  - intro k. unfold bv_mem, bm_mem. unfold bv_get in R. rewrite R. reflexivity.
  - intros k vo. apply (slot_update K V H eqb ltb kh chain KO b d k vo). split; [exact Hid | split; assumption].
Qed.
Print Assumptions C15_store_refines_layered.

(* the script form of the store runs ends in the state of its history *)
Theorem C15_store_script_follows_history : forall T khtbl chains st is,
  snd (xs_script T khtbl chains st is)
  = fold_left (s_step (py_eq T) (py_lt T) (lookup_val khtbl) (lookup_chain chains)) (ops_of xs_op is) st.
Proof. intros. apply xs_script_state. Qed.
Print Assumptions C15_store_script_follows_history.

(* ---- non-vacuity and the two repaired defects as regression examples (keys, values, hashes: Z) *)
Definition zchain (h : Z) : option Z := if Z.eqb h 1 then Some 100%Z else if Z.eqb h 2 then Some 200%Z else None.

(* defect #15 (fixed 5d305cf): set a, set b, remove a, update b, set a := 5, GET a *)
Example C15_reinsert_after_remove :
  bm_get Z.eqb (fun k => k) (fun _ => None) 1%Z
    (bm_run Z.eqb Z.ltb (fun k => k) (fun _ => None) []
       [BUpdate 1 (Some 10); BUpdate 2 (Some 20); BUpdate 1 None; BUpdate 2 (Some 21); BUpdate 1 (Some 5)]%Z)
  = Some 5%Z.
Proof. vm_compute. reflexivity. Qed.

(* defect #39 (fixed 5b7f104): UPDATE with Some v on a key that exists only on chain *)
Example C15_update_chain_only_key :
  let s := bm_run Z.eqb Z.ltb (fun k => k) zchain [] [BUpdate 1 (Some 10)]%Z in
  bm_get Z.eqb (fun k => k) zchain 1%Z s = Some 10%Z /\ bm_items s = [(1, 10)]%Z /\
  bm_get Z.eqb (fun k => k) zchain 2%Z s = Some 200%Z.
Proof. vm_compute. repeat split; reflexivity. Qed.

Example C15_remove_chain_key_then_diff :
  let s := bm_run Z.eqb Z.ltb (fun k => k) zchain [] [BUpdate 2 None; BUpdate 3 (Some 7)]%Z in
  map (fun u => (u_key u, u_val u)) (bm_updates (fun k => k) s) = [(3, Some 7); (2, None)]%Z /\
  apply_updates Z.eqb (bm_updates (fun k => k) s) zchain 2%Z = None /\
  apply_updates Z.eqb (bm_updates (fun k => k) s) zchain 1%Z = Some 100%Z.
Proof. vm_compute. repeat split; reflexivity. Qed.
