(* C20 — Tickets are never forged, duplicated, zeroed or merged incorrectly.
   Model: Michelson/Tickets.v — [step]/[run] mirror the pytezos instructions TICKET, READ_TICKET,
   SPLIT_TICKET, JOIN_TICKETS, DUP, DUP n and the stack/pair/option/list instructions that move
   tickets (SWAP DROP DIG DUG PAIR UNPAIR CAR CDR SOME NONE IF_NONE NIL CONS IF_CONS ITER MAP LEFT RIGHT IF_LEFT EMPTY_MAP EMPTY_BIG_MAP UPDATE GET_AND_UPDATE MEM GET LAMBDA APPLY EXEC LOOP PUSH); programs
   are arbitrary (nested) instruction lists.  The state carries a ghost ledger [minted] that only
   TICKET extends.  [stack_mass k s] is the total amount of the tickets with key k = (ticketer,
   contents) anywhere inside the stack (also inside pairs, options, lists). *)
From Coq Require Import List ZArith Bool.
From Coq.Strings Require Import Byte.
From PV Require Import Base.Bytes Base.Result Michelson.Tickets Proofs.Tickets_proofs.
Import ListNotations.
Local Open Scope Z_scope.

(* conservation: for every program, every start state with a well-formed stack (list elements of the
   declared type, nat >= 0, ticket amounts > 0) and every key, the total ticket amount grows by at
   most what TICKET created during the run; well-formedness (in particular: no zero-amount ticket
   anywhere in the stack) is preserved *)
Theorem C20_mass_only_grows_by_TICKET : forall f p st st',
  ok_stack (stk st) = true -> run f p st = Ok st' ->
  ok_stack (stk st') = true /\
  forall k, stack_mass k (stk st') - stack_mass k (stk st) <= ledger_sum k (minted st') - ledger_sum k (minted st).
Proof. exact conservation. Qed.
Print Assumptions C20_mass_only_grows_by_TICKET.

(* the ledger is touched by TICKET only: a program without TICKET leaves it unchanged ... *)
Theorem C20_ledger_changes_only_by_TICKET : forall f p st st',
  prog_has_ticket p = false -> run f p st = Ok st' -> minted st' = minted st.
Proof. intros f p st st' H. apply (run_keeps_ledger f p H). Qed.
Print Assumptions C20_ledger_changes_only_by_TICKET.

(* ... hence split / join / dup / pair / option / list shuffling can never increase any ticket total:
   tickets are neither forged nor duplicated *)
Theorem C20_no_growth_without_TICKET : forall f p st st',
  ok_stack (stk st) = true -> prog_has_ticket p = false -> run f p st = Ok st' ->
  forall k, stack_mass k (stk st') <= stack_mass k (stk st).
Proof. exact no_ticket_no_growth. Qed.
Print Assumptions C20_no_growth_without_TICKET.

(* from the empty stack: every ticket present at the end has a positive amount and is covered by the ledger *)
Theorem C20_from_empty_stack : forall f p a st',
  run f p (init a) = Ok st' ->
  stack_pos (stk st') = true /\ forall k, stack_mass k (stk st') <= ledger_sum k (minted st').
Proof. exact from_empty. Qed.
Print Assumptions C20_from_empty_stack.

(* [tickets_pos] really means: every ticket inside the value has amount > 0 *)
Theorem C20_no_zero_ticket : forall v, tickets_pos v = true ->
  forall tk c amt, In (tk, c, amt) (tickets_of v) -> 0 < amt.
Proof. exact tickets_pos_spec. Qed.
Print Assumptions C20_no_zero_ticket.

(* TICKET: None for amount 0, otherwise a ticket of exactly that amount issued by SELF (and recorded) *)
Theorem C20_ticket_spec : forall f st item amount s c,
  stk st = item :: VNat amount :: s -> content_of item = Some c ->
  step (S f) TICKET st =
  Ok (if amount >? 0
      then {| self := self st; stk := VSome (VTicket (self st) c amount) :: s; minted := ((self st, c), amount) :: minted st |}
      else with_stk st (VNone (TTicket (cty_of c)) :: s)).
Proof. exact ticket_spec. Qed.
Print Assumptions C20_ticket_spec.

(* SPLIT_TICKET: None iff a part is 0 or the parts do not sum to the amount; otherwise the two parts *)
Theorem C20_split_spec : forall f st tk c a l r s,
  stk st = VTicket tk c a :: VPair (VNat l) (VNat r) :: s ->
  (l = 0 \/ r = 0 \/ l + r <> a ->
     step (S f) SPLIT_TICKET st = Ok (with_stk st (VNone (TPair (TTicket (cty_of c)) (TTicket (cty_of c))) :: s))) /\
  (l <> 0 -> r <> 0 -> l + r = a ->
     step (S f) SPLIT_TICKET st = Ok (with_stk st (VSome (VPair (VTicket tk c l) (VTicket tk c r)) :: s))).
Proof. exact split_spec. Qed.
Print Assumptions C20_split_spec.

(* JOIN_TICKETS: Some (amounts added) iff same ticketer and same contents, None otherwise *)
Theorem C20_join_spec : forall f st t1 c1 a1 t2 c2 a2 s,
  stk st = VPair (VTicket t1 c1 a1) (VTicket t2 c2 a2) :: s -> cty_of c1 = cty_of c2 ->
  (t1 = t2 /\ c1 = c2 -> step (S f) JOIN_TICKETS st = Ok (with_stk st (VSome (VTicket t1 c1 (a1 + a2)) :: s))) /\
  (~ (t1 = t2 /\ c1 = c2) -> step (S f) JOIN_TICKETS st = Ok (with_stk st (VNone (TTicket (cty_of c1)) :: s))).
Proof. exact join_spec. Qed.
Print Assumptions C20_join_spec.

(* DUP and DUP n refuse every value that contains a ticket (at any depth) *)
Theorem C20_dup_rejects_tickets : forall f st x s,
  stk st = x :: s -> wt x = true -> has_ticket x = true -> step (S f) DUP st = Reject.
Proof. exact dup_rejects_tickets. Qed.
Print Assumptions C20_dup_rejects_tickets.

Theorem C20_dupn_rejects_tickets : forall f st n x,
  nth_error (stk st) n = Some x -> wt x = true -> has_ticket x = true -> step (S f) (DUPN (S n)) st = Reject.
Proof. exact dupn_rejects_tickets. Qed.
Print Assumptions C20_dupn_rejects_tickets.

(* non-vacuity: a program that mints, splits, re-joins and reads a ticket *)
Example C20_example :
  exec_from [x41] [PUSH_NAT 2; PUSH_NAT 1; PAIR; PUSH_NAT 3; PUSH_STR [x61]; TICKET;
                   IF_NONE [] [SPLIT_TICKET; IF_NONE [] [UNPAIR; PAIR; JOIN_TICKETS]]]
  = Ok [VSome (VTicket [x41] (CS [x61]) 3)].
Proof. vm_compute. reflexivity. Qed.

Example C20_example_dup : exec_from [x41] [PUSH_NAT 3; PUSH_STR [x61]; TICKET; DUP] = Reject.
Proof. vm_compute. reflexivity. Qed.

(* a successful SPLIT_TICKET / JOIN_TICKETS redistributes the amount exactly (nothing created, nothing lost) *)
Theorem C20_split_conserves_exactly : forall f st tk c a l r s k,
  stk st = VTicket tk c a :: VPair (VNat l) (VNat r) :: s -> l <> 0 -> r <> 0 -> l + r = a ->
  exists st', step (S f) SPLIT_TICKET st = Ok st' /\ stack_mass k (stk st') = stack_mass k (stk st) /\ minted st' = minted st.
Proof. exact split_conserves_exactly. Qed.
Print Assumptions C20_split_conserves_exactly.

Theorem C20_join_conserves_exactly : forall f st t c a1 a2 s k,
  stk st = VPair (VTicket t c a1) (VTicket t c a2) :: s ->
  exists st', step (S f) JOIN_TICKETS st = Ok st' /\ stack_mass k (stk st') = stack_mass k (stk st) /\ minted st' = minted st.
Proof. exact join_conserves_exactly. Qed.
Print Assumptions C20_join_conserves_exactly.

(* maps and big_maps (finite maps with nat keys) holding tickets are part of the instruction set covered by
   C20_mass_only_grows_by_TICKET (EMPTY_MAP / EMPTY_BIG_MAP, UPDATE, GET_AND_UPDATE, MEM, GET, ITER over maps).
   GET and DUP / DUP n on a map whose value type contains a ticket are refused (what defect #50 violated) ... *)
Theorem C20_map_of_tickets_get_dup_rejected : forall f st k big vt m s, ty_has_ticket vt = true ->
  (stk st = VNat k :: VMap big vt m :: s -> step (S f) GET st = Reject) /\
  (stk st = VMap big vt m :: s -> step (S f) DUP st = Reject) /\
  (forall n, nth_error (stk st) n = Some (VMap big vt m) -> step (S f) (DUPN (S n)) st = Reject).
Proof. exact map_of_tickets_get_dup_rejected. Qed.
Print Assumptions C20_map_of_tickets_get_dup_rejected.

(* ... and GET_AND_UPDATE k None moves the value out: a second one on the same key finds nothing *)
Theorem C20_get_and_update_moves : forall f st k t big vt m s,
  stk st = VNat k :: VNone t :: VMap big vt m :: s ->
  step (S f) GET_AND_UPDATE st = Ok (with_stk st (opt_of vt (map_get k m) :: VMap big vt (map_remove k m) :: s)) /\
  map_get k (map_remove k m) = None.
Proof. exact get_and_update_moves. Qed.
Print Assumptions C20_get_and_update_moves.

(* closures (LAMBDA / APPLY / EXEC) are part of the covered instruction set; closures are duplicable and count
   for no ticket mass, because a closure that captured a value whose type contains a ticket can never be run:
   EXEC re-pushes the captured values and PUSH refuses non-pushable types (what seed C20-5 broke) *)
Theorem C20_closure_with_ticket_never_runs : forall f st x a r caps body s c,
  stk st = x :: VLam a r caps body :: s -> In c caps -> ty_has_ticket (type_of c) = true ->
  step (S f) EXEC st = Reject.
Proof. exact closure_with_ticket_never_runs. Qed.
Print Assumptions C20_closure_with_ticket_never_runs.
