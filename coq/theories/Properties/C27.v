(* C27 — Node errors map to the most specific registered error class.
   Model: Client/ErrorMap.v (mirrors _gen_error_variants, RpcError.from_errors and the classes
   registered by pytezos.rpc.errors).  Identifiers are chunk lists (error_id.split('.')).
   Specification (Proofs/ErrorMap_proofs.v): [candidate id r k] — key k may match identifier id
   with specificity rank r: 0 the full identifier, 1 the identifier without its two-chunk
   protocol prefix (proto.<hash>.), 2 its final component, 3 its category (the component before
   the final one).  The theorems hold for every registry, every class type and every
   identifier — not only for the five classes registered today. *)
From Coq Require Import List Arith Bool String.
From PV Require Import Client.ErrorMap Proofs.ErrorMap_proofs.
Import ListNotations.
Local Open Scope string_scope.
Local Open Scope list_scope.

(* The exception raised for a non-empty error list [pre ++ [e]] is built from the LAST error e
   (index |pre|) and its class is the registered candidate of least rank: full id, else id
   without prefix, else final component, else category; the generic RpcError iff no candidate
   is registered. *)
Theorem C27_first_match_in_spec_order : forall (C : Type) (reg : registry C) (pre : list ident) (e : ident),
  (forall c, from_errors reg (pre ++ [e]) = Handled c (List.length pre) <->
     exists r k, candidate e r k /\ lookup reg k = Some c /\
                 forall r' k', candidate e r' k' -> r' < r -> lookup reg k' = None) /\
  (from_errors reg (pre ++ [e]) = Generic (List.length pre) <->
     forall r k, candidate e r k -> lookup reg k = None) /\
  (forall c i, from_errors reg (pre ++ [e]) = Handled c i -> i = List.length pre) /\
  (forall i, from_errors reg (pre ++ [e]) = Generic i -> i = List.length pre).
Proof. intros C. exact (@from_errors_spec C). Qed.
Print Assumptions C27_first_match_in_spec_order.

(* the errors before the last one have no influence *)
Theorem C27_uses_last_error : forall (C : Type) (reg : registry C) pre pre' e,
  List.length pre = List.length pre' -> from_errors reg (pre ++ [e]) = from_errors reg (pre' ++ [e]).
Proof. intros C. exact (@from_errors_ignores_earlier C). Qed.
Print Assumptions C27_uses_last_error.

(* 'Unspecified error' exactly for the empty list *)
Theorem C27_empty_is_unspecified : forall (C : Type) (reg : registry C) errs,
  from_errors reg errs = Unspecified <-> errs = [].
Proof. intros C. exact (@from_errors_unspecified_iff C). Qed.
Print Assumptions C27_empty_is_unspecified.

(* for a dict (keys unique) "lookup gives c" is "k is registered with class c" *)
Theorem C27_lookup_is_membership : forall (C : Type) (reg : registry C) k c,
  NoDup (map fst reg) -> (lookup reg k = Some c <-> In (k, c) reg).
Proof. intros C. exact (@lookup_iff C). Qed.
Print Assumptions C27_lookup_is_membership.

(* registration (class X(RpcError, error_id=...)) stores every given id verbatim: afterwards the class is
   found under exactly the ids it was declared with - a protocol-qualified full id stays protocol-qualified -
   and all other keys are untouched *)
Theorem C27_registration_is_verbatim : forall (C : Type) (reg : registry C) (ids : list ident) (c : C) (k : ident),
  (In k ids -> lookup (register reg ids c) k = Some c) /\
  (~ In k ids -> lookup (register reg ids c) k = lookup reg k).
Proof. intros C. exact (@register_spec C). Qed.
Print Assumptions C27_registration_is_verbatim.

(* the order of attempts for the identifier shapes named by the property *)
Theorem C27_variants_of_canonical_forms : forall p h c n : chunk,
  variants [p; h; c; n] = [[p; h; c; n]; [c; n]; [n]; [c]] /\
  variants [c; n] = [[c; n]; [n]; [c]] /\
  variants [n] = [[n]].
Proof. intros. repeat split. Qed.
Print Assumptions C27_variants_of_canonical_forms.

(* with today's registry: a FAILWITH is raised as MichelsonScriptRejected (not as the catch-all
   MichelsonError), for every protocol hash and whatever precedes it in the list;
   likewise the other three ranks *)
Theorem C27_registered_examples : forall (pre : list ident) (h : chunk),
  from_errors handlers (pre ++ [["proto"; h; "michelson_v1"; "script_rejected"]]) = Handled MichelsonScriptRejected (List.length pre) /\
  from_errors handlers (pre ++ [["proto"; h; "michelson_v1"; "bad_return"]]) = Handled MichelsonBadReturn (List.length pre) /\
  from_errors handlers (pre ++ [["proto"; h; "tez"; "subtraction_underflow"]]) = Handled TezArithmeticError (List.length pre) /\
  from_errors handlers (pre ++ [["proto"; h; "contract"; "balance_too_low"]]) = Generic (List.length pre).
Proof.
  intros. repeat split;
    [apply script_rejected | apply bad_return | apply tez_category | apply unregistered_generic].
Qed.
Print Assumptions C27_registered_examples.

(* the table of pytezos.rpc.errors is what its five class statements register *)
Example C27_handlers_built :
  build [([["michelson_v1"; "bad_contract_parameter"]], MichelsonBadContractParameter);
         ([["michelson_v1"; "bad_return"]], MichelsonBadReturn); ([["michelson_v1"]], MichelsonError);
         ([["tez"]], TezArithmeticError); ([["script_rejected"]], MichelsonScriptRejected)] = handlers.
Proof. reflexivity. Qed.

(* non-vacuity: the hypothesis of C27_lookup_is_membership holds for the real registry, and
   all four ranks are inhabited *)
Example C27_handlers_nodup : NoDup (map fst handlers).
Proof. exact handlers_nodup. Qed.
Example C27_candidates_example :
  candidate ["proto"; "Pt"; "michelson_v1"; "script_rejected"] 1 ["michelson_v1"; "script_rejected"] /\
  candidate ["proto"; "Pt"; "michelson_v1"; "script_rejected"] 2 ["script_rejected"] /\
  candidate ["proto"; "Pt"; "michelson_v1"; "script_rejected"] 3 ["michelson_v1"].
Proof.
  repeat split.
  - constructor.
  - exact (cand_last ["proto"; "Pt"] "michelson_v1" "script_rejected").
  - exact (cand_category ["proto"; "Pt"] "michelson_v1" "script_rejected").
Qed.
