(* C31 — Operation list and payload hashes follow the Tezos Merkle construction.
   Model: Codec/Merkle.v (mirrors src/pytezos/crypto/hash.py: the in-place list reduction of
   _reduce_operation_hashes, and the three public functions as compositions).
   Every theorem is generic in the hash: [leaf], [H2], [H0] (resp. [blake], [b58dec], [b58enc])
   are universally quantified — they hold for Blake2b-256 and for any other function.
   [reduce] returns [Done t]; the answers [IndexError] (a list index out of range in the Python
   loop) and [OutOfFuel] (the model's recursion budget) are thereby excluded for every input. *)
From Coq Require Import List Arith Bool NArith ZArith Lia.
From Coq.Strings Require Import Byte.
From PV Require Import Base.Bytes Base.Result Codec.Merkle Proofs.Merkle_proofs.
Import ListNotations.

(* the in-place reduction computes, for every list of at least two hashes and every hash function,
   the root of the perfect binary tree of depth ceil(log2 n) over the leaves padded with copies
   of the last leaf *)
Theorem C31_merkle_is_padded_tree :
  forall (A T : Type) (leaf : A -> T) (H2 : T -> T -> T) (H0 : T) (hashes : list A),
    2 <= length hashes ->
    exists t, root H2 (Nat.log2_up (length hashes)) (pad_pow2 (map leaf hashes)) = Some t /\
              reduce leaf H2 H0 hashes = Done t.
Proof. exact reduce_is_root. Qed.
Print Assumptions C31_merkle_is_padded_tree.

(* an empty list hashes to _hash_tuple() — the hash of the empty string *)
Theorem C31_empty :
  forall (A T : Type) (leaf : A -> T) (H2 : T -> T -> T) (H0 : T), reduce leaf H2 H0 [] = Done H0.
Proof. reflexivity. Qed.
Print Assumptions C31_empty.

(* a singleton list hashes to its leaf *)
Theorem C31_single :
  forall (A T : Type) (leaf : A -> T) (H2 : T -> T -> T) (H0 : T) (x : A), reduce leaf H2 H0 [x] = Done (leaf x).
Proof. reflexivity. Qed.
Print Assumptions C31_single.

(* all lengths at once: the specification is defined and the code returns it *)
Theorem C31_reduce_is_merkle_root :
  forall (A T : Type) (leaf : A -> T) (H2 : T -> T -> T) (H0 : T) (hashes : list A),
    exists t, merkle_spec leaf H2 H0 hashes = Some t /\ reduce leaf H2 H0 hashes = Done t.
Proof. exact reduce_is_spec. Qed.
Print Assumptions C31_reduce_is_merkle_root.

(* the same through explicit trees: whatever perfect tree of depth ceil(log2 n) has the padded
   leaves as its frontier, the code returns its evaluation; and such a tree exists *)
Theorem C31_tree_form :
  forall (A T : Type) (leaf : A -> T) (H2 : T -> T -> T) (H0 : T) (hashes : list A) (t : tree T),
    hashes <> [] -> perfect (Nat.log2_up (length hashes)) t -> leaves t = pad_pow2 (map leaf hashes) ->
    reduce leaf H2 H0 hashes = Done (eval H2 t).
Proof. exact reduce_is_tree. Qed.
Print Assumptions C31_tree_form.

Theorem C31_tree_exists :
  forall (A T : Type) (leaf : A -> T) (hashes : list A), hashes <> [] ->
    exists t : tree T, perfect (Nat.log2_up (length hashes)) t /\ leaves t = pad_pow2 (map leaf hashes).
Proof. exact padded_tree_exists. Qed.
Print Assumptions C31_tree_exists.

(* the padding: copies of the last leaf, up to the *next* power of two (no smaller power fits) *)
Theorem C31_padding :
  forall (T : Type) (l : list T) (x : T), last_opt l = Some x ->
    exists k, pad_pow2 l = l ++ repeat x k /\ length l + k = 2 ^ Nat.log2_up (length l) /\
              (forall d, length l <= 2 ^ d -> Nat.log2_up (length l) <= d) /\
              nth (length l - 1) l x = x.
Proof. exact pad_minimal. Qed.
Print Assumptions C31_padding.

(* parametricity made precise: the reduction commutes with every homomorphism of hash algebras (for all three
   kinds of outcome); hence what the code does on a free term algebra for a list of n opaque inputs
   determines what it does for every hash function and all contents of that length — the reason the
   correspondence run with free terms is exhaustive per length *)
Theorem C31_parametric :
  forall (T1 T2 : Type) (H1 : T1 -> T1 -> T1) (H2 : T2 -> T2 -> T2) (phi : T1 -> T2),
    (forall a b, phi (H1 a b) = H2 (phi a) (phi b)) ->
    forall e1 e2, phi e1 = e2 -> forall l : list T1,
      py_reduce H2 e2 (map phi l) = map_outcome phi (py_reduce H1 e1 l).
Proof. exact py_reduce_map. Qed.
Print Assumptions C31_parametric.

Theorem C31_free_term_universal :
  forall (T : Type) (H : T -> T -> T) (e : T) (v : N -> T) (l : list term),
    py_reduce H e (map (interp H e v) l) = map_outcome (interp H e v) (py_reduce HT Emp l).
Proof. exact free_term_universal. Qed.
Print Assumptions C31_free_term_universal.

(* the postfix serialisation through which the correspondence run compares tree terms is injective
   (inputs numbered below 2^16), so equal serialisations mean equal terms *)
Theorem C31_ser_injective : forall t1 t2 : term, small t1 -> small t2 -> ser t1 = ser t2 -> t1 = t2.
Proof. exact ser_injective. Qed.
Print Assumptions C31_ser_injective.

(* bytes level, Blake2b as an arbitrary function: _reduce_operation_hashes is the Merkle root with
   leaves blake(x), nodes blake(l ++ r), empty = blake("") *)
Theorem C31_reduce_operation_hashes :
  forall (blake : bytes -> bytes) (hs : list bytes),
    exists t, merkle_bytes blake hs = Some t /\ reduce_operation_hashes blake hs = Done t.
Proof. exact reduce_ops_spec. Qed.
Print Assumptions C31_reduce_operation_hashes.

(* operation_list_hash = base58 'Lo' of the Merkle root of the decoded hashes *)
Theorem C31_operation_list_hash :
  forall blake b58dec b58enc (ops raw : list bytes), mapM b58dec ops = Ok raw ->
    exists t, merkle_bytes blake raw = Some t /\
              operation_list_hash blake b58dec b58enc ops = Ok (b58enc pLo t).
Proof. exact oplist_ok. Qed.
Print Assumptions C31_operation_list_hash.

(* operation_list_list_hash = base58 'LLo' of the Merkle root of the per-list Merkle roots
   (given that base58 decoding inverts encoding — property C09) *)
Theorem C31_operation_list_list_hash :
  forall blake b58dec b58enc, (forall p x, b58dec (b58enc p x) = Ok x) ->
  forall (opss : list (list bytes)) (raws : list (list bytes)), mapM (mapM b58dec) opss = Ok raws ->
    exists ts t, Forall2 (fun raw ti => merkle_bytes blake raw = Some ti) raws ts /\
                 merkle_bytes blake ts = Some t /\
                 operation_list_list_hash blake b58dec b58enc opss = Ok (b58enc pLLo t).
Proof. exact oplistlist_ok. Qed.
Print Assumptions C31_operation_list_list_hash.

(* block_payload_hash = base58 'vh' of blake(predecessor ++ int32_be(round) ++ Merkle root) *)
Theorem C31_block_payload_hash :
  forall blake b58dec b58enc (pred p : bytes) (round : Z) (ops raw : list bytes),
    b58dec pred = Ok p -> (0 <= round < 4294967296)%Z -> mapM b58dec ops = Ok raw ->
    exists t, merkle_bytes blake raw = Some t /\
      block_payload_hash blake b58dec b58enc pred round ops
      = Ok (b58enc pvh (blake (p ++ N_to_be 4 (Z.to_N round) ++ t))).
Proof. exact payload_ok. Qed.
Print Assumptions C31_block_payload_hash.

(* non-vacuity and a worked instance: five leaves, free terms *)
Example C31_example_5 :
  py_reduce HT Emp [Raw 0; Raw 1; Raw 2; Raw 3; Raw 4]
  = Done (HT (HT (HT (HT (Raw 0) Emp) (HT (Raw 1) Emp)) (HT (HT (Raw 2) Emp) (HT (Raw 3) Emp)))
             (HT (HT (HT (Raw 4) Emp) (HT (Raw 4) Emp)) (HT (HT (Raw 4) Emp) (HT (Raw 4) Emp)))).
Proof. vm_compute. reflexivity. Qed.

Example C31_example_pad :
  pad_pow2 [1; 2; 3; 4; 5] = [1; 2; 3; 4; 5; 5; 5; 5].
Proof. vm_compute. reflexivity. Qed.

Example C31_example_hyps :
  2 <= length [1; 2; 3] /\ last_opt [1; 2; 3] = Some 3 /\ [1; 2; 3] <> [] /\
  mapM (fun x : bytes => Ok x) [[x00]; [x01]] = Ok [[x00]; [x01]].
Proof. repeat split; try (cbn; lia); try discriminate. Qed.
