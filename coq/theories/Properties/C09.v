(* C09 — Base58Check typed encodings are unambiguous and invertible.
   Model: Codec/Base58.v (base58 package functions + encoding.py's table, base58_encode,
   base58_decode, validators).  [sha256] is an arbitrary function with 32-byte output
   ([sha_ok]); the table is ANY table [t] passing the computable side conditions
   [table_ok t = true] (per row: the interval inclusion of DESIGN.md §8/C09; pairwise: no string
   can match two rows).  [C09_pinned_table_ok] discharges them for the pinned copy of
   base58_encodings; every check run re-proves them for the table read from /repo
   (.work/C09/RepoTable.v) and instantiates the theorems below for it. *)
From Coq Require Import String List NArith Bool Arith.
From Coq.Strings Require Import Byte.
From PV Require Import Base.Bytes Base.Result Codec.Base58 Proofs.Base58_proofs.
Import ListNotations.

(* the 43 pinned rows satisfy the side conditions (43 interval inclusions + 43x43 prefix tests) *)
Theorem C09_pinned_table_ok : table_ok table43 = true.
Proof. exact table43_ok. Qed.
Print Assumptions C09_pinned_table_ok.

(* the base-58 layer itself: decoding inverts encoding for every byte string *)
Theorem C09_b58_roundtrip : forall v, b58_dec (b58_enc v) = Some v.
Proof. exact b58_dec_enc. Qed.
Print Assumptions C09_b58_roundtrip.

(* encoding is defined for every payload of a row's length *)
Theorem C09_encode_defined : forall sha256 t r p,
  In r t -> length p = plen r -> exists s, base58_encode sha256 t p (tpre r) = Ok s.
Proof. exact encode_total. Qed.
Print Assumptions C09_encode_defined.

(* for EVERY payload the encoded string has the row's documented length and textual prefix *)
Theorem C09_prefix_and_length : forall sha256 t, sha_ok sha256 -> table_ok t = true ->
  forall p tp s, base58_encode sha256 t p tp = Ok s ->
  exists r, In r t /\ tpre r = tp /\ plen r = length p /\ length s = elen r /\ is_prefix tp s = true.
Proof. exact any_prefix_and_length. Qed.
Print Assumptions C09_prefix_and_length.

(* decoding the encoded string returns the payload *)
Theorem C09_roundtrip : forall sha256 t, sha_ok sha256 -> table_ok t = true ->
  forall p tp s, base58_encode sha256 t p tp = Ok s -> base58_decode sha256 t s = Ok p.
Proof. exact any_roundtrip. Qed.
Print Assumptions C09_roundtrip.

(* rejection: no row with this length and prefix; wrong checksum; a character outside the
   alphabet; binary prefix of the matched row absent *)
Theorem C09_rejects : forall sha256 t,
  (forall s, (forall r, In r t -> length s <> elen r \/ is_prefix (tpre r) s = false) ->
             base58_decode sha256 t s = Reject) /\
  (forall s body chk, b58_dec s = Some (body ++ chk) -> length chk = 4%nat ->
             chk <> checksum sha256 body -> base58_decode sha256 t s = Reject) /\
  (forall s, b58_dec s = None -> base58_decode sha256 t s = Reject) /\
  (forall s r d, find_dec t s = Some r -> b58check_dec sha256 s = Some d ->
             is_prefix (bpre r) d = false -> base58_decode sha256 t s = Reject).
Proof. exact any_rejects. Qed.
Print Assumptions C09_rejects.

(* no string is valid for two rows *)
Theorem C09_unambiguous : forall sha256 t, table_ok t = true ->
  forall r1 r2 s, In r1 t -> In r2 t -> valid_for sha256 r1 s -> valid_for sha256 r2 s -> r1 = r2.
Proof. exact any_unambiguous. Qed.
Print Assumptions C09_unambiguous.

(* base58_decode accepts exactly the strings that are valid for some row *)
Theorem C09_decode_accepts_iff_valid : forall sha256 t, table_ok t = true ->
  forall s, (exists p, base58_decode sha256 t s = Ok p) <-> (exists r, In r t /\ valid_for sha256 r s).
Proof. exact any_decode_valid_iff. Qed.
Print Assumptions C09_decode_accepts_iff_valid.

(* ---- exactness (needs one more computable side condition, [table_ws_ok]: no shorter body under
   the same binary prefix has fewer digits with the same leading characters — this is what makes a
   string padded with trailing whitespace, which the base58 package strips, unacceptable) -------- *)
Theorem C09_pinned_table_full_ok : table_full_ok table43 = true.
Proof. exact table43_full_ok. Qed.
Print Assumptions C09_pinned_table_full_ok.

(* base58_decode returns p on s  IFF  s is exactly the Base58Check encoding, under some row of the
   table, of a payload p of that row's length.  Every other string — wrong checksum, wrong length,
   unknown or foreign prefix, any corruption of a valid string that is not itself valid, trailing
   whitespace — is rejected. *)
Theorem C09_decode_iff_encoding : forall sha256 t, sha_ok sha256 -> table_full_ok t = true ->
  forall s p, base58_decode sha256 t s = Ok p <-> exists r, encodes sha256 t r p s.
Proof. exact any_decode_iff_all. Qed.
Print Assumptions C09_decode_iff_encoding.

(* a string is the encoding of at most one (kind, payload) *)
Theorem C09_one_string_one_kind : forall sha256 t, sha_ok sha256 -> table_full_ok t = true ->
  forall r1 p1 r2 p2 s, encodes sha256 t r1 p1 s -> encodes sha256 t r2 p2 s -> r1 = r2 /\ p1 = p2.
Proof. exact any_encodes_unique. Qed.
Print Assumptions C09_one_string_one_kind.

(* the validators (is_pkh, is_sig, is_bh, ... are [validate] with their prefix lists): true exactly
   on the valid encodings of a kind whose textual prefix is listed *)
Theorem C09_validators : forall sha256 t, sha_ok sha256 -> table_full_ok t = true ->
  forall prefixes s,
  validate sha256 t prefixes s = true <-> exists r p, encodes sha256 t r p s /\ In (tpre r) prefixes.
Proof. exact any_validate_iff. Qed.
Print Assumptions C09_validators.

(* non-vacuity: a function with 32-byte output exists, and with it the all-zero tz1 payload
   encodes to 36 characters starting with "tz1" and decodes back *)
Example C09_sha_ok_inhabited : sha_ok (fun _ => repeat x00 32).
Proof. intro x. reflexivity. Qed.

Example C09_example :
  let sha := fun _ : bytes => repeat x00 32 in
  match base58_encode sha table43 (repeat x00 20) (tx "tz1") with
  | Ok s => (length s =? 36)%nat && is_prefix (tx "tz1") s &&
            result_eqb bytes_eqb (base58_decode sha table43 s) (Ok (repeat x00 20))
  | Reject => false
  end = true.
Proof. vm_compute. reflexivity. Qed.
