(* C07 — signing and verification are correct for every key kind.

   What is proved is the GLUE of Key.sign / Key.verify / CHECK_SIGNATURE (models: Client/KeyGlue.v,
   Client/KeyStore.v): curve dispatch, what is hashed before signing, signature length and base58 prefix
   (generic [sig] vs curve prefix; BLS has no generic form), the table lookups, the curve / prefix test
   of verify, CHECK_SIGNATURE = "verify did not raise ValueError".

   Native cryptography is an oracle [P : prims]; the theorems hold for EVERY oracle that satisfies the
   laws [sig_laws P] / [b58_laws P] (Client/KeyGlue.v): a key pair derived natively signs every payload
   with a signature of the curve's length that native verification accepts; base58check decoding
   inverts encoding and has the tabulated length / textual prefix.  That an altered message, signature
   or key is rejected, and that an independent implementation accepts the signature, are properties of
   the native libraries: here they reduce to "Key.verify returns exactly the native verdict"
   ([C07_verify_is_native_verdict]) and are tested by the harness (oracle (B)).  In this sense C07 is
   proved PARTIALLY: the glue for all keys and messages, not the cryptography. *)
From Coq Require Import String.
From Coq Require Import List NArith Bool.
From Coq.Strings Require Import Byte.
From PV Require Import Base.Bytes Base.Result Client.KeyGlue Client.KeyStore Proofs.KeyGlue_proofs.
Import ListNotations.

(* For every curve, every natively derived key pair (se: secret exponent or seed handed to
   Key.from_secret_exponent), every message that scrub_input accepts (all bytes; str: hex or ASCII) and
   both forms (generic or not): the key object is built, signing succeeds, and the signature verifies
   under the key and under its public half. *)
Theorem C07_sign_then_verify : forall P, sig_laws P -> forall c se pk sk m em g,
  keypair P c se pk sk -> se <> [] -> scrub_input m = Ok em ->
  from_secret_exponent P (curve_tag c) se = Ok (mkkey pk (Some sk) (curve_tag c)) /\
  exists s,
    key_sign P (mkkey pk (Some sk) (curve_tag c)) m g = Ok s /\
    key_verify P (mkkey pk (Some sk) (curve_tag c)) (PS s) m = Valid /\
    key_verify P (mkkey pk None (curve_tag c)) (PS s) m = Valid.
Proof. exact c07_sign_then_verify. Qed.
Print Assumptions C07_sign_then_verify.

(* ... and CHECK_SIGNATURE on (public key text, that signature, the message bytes) pushes True. *)
Theorem C07_check_signature_accepts : forall P, sig_laws P -> forall c se pk sk em g s pks,
  keypair P c se pk sk -> se <> [] ->
  key_sign P (mkkey pk (Some sk) (curve_tag c)) (PB em) g = Ok s ->
  public_key P (mkkey pk (Some sk) (curve_tag c)) = Ok pks ->
  check_signature P pks s em = Ok true.
Proof. exact c07_check_signature_accepts. Qed.
Print Assumptions C07_check_signature_accepts.

(* The form of the signature: base58check of (binary prefix of the row ++ native signature), where the row
   is [sig] (96 characters) for a generic signature of a non-BLS key and [edsig]/[spsig]/[p2sig]/[BLsig]
   otherwise — in particular a BLS key signs with [BLsig] also when generic is requested. *)
Theorem C07_signature_form : forall P, sig_laws P -> forall c pk sk m em g raw,
  sk <> [] -> scrub_input m = Ok em -> raw_sign P c sk em = Ok raw -> length raw = siglen c ->
  key_sign P (mkkey pk (Some sk) (curve_tag c)) m g = Ok (str_of (b58enc P (r_bin (sig_row c g) ++ raw))) /\
  r_txt (sig_row c g) = (if g && negb (curve_eqb c BL) then tx "sig" else curve_tag c ++ tx "sig").
Proof. exact c07_signature_form. Qed.
Print Assumptions C07_signature_form.

(* Digest discipline: the native signing / verification primitive of Ed25519, Secp256k1 and P-256 is applied
   to blake2b-256 of the message, the BLS primitive to the message itself ([payload]); the message enters in no
   other way — two messages with the same payload get the same signature. *)
Theorem C07_digest_discipline : forall P c sk pk ds em,
  raw_sign P c sk em = raw_sign_on P c sk (payload P c em) /\
  raw_verify P c pk ds em = raw_verify_on P c pk ds (payload P c em).
Proof. exact digest_discipline. Qed.
Print Assumptions C07_digest_discipline.

Theorem C07_signature_depends_on_payload_only : forall P k c m m' em em' g,
  ktag k = curve_tag c -> scrub_input m = Ok em -> scrub_input m' = Ok em' ->
  payload P c em = payload P c em' -> key_sign P k m g = key_sign P k m' g.
Proof. exact sign_depends_on_payload. Qed.
Print Assumptions C07_signature_depends_on_payload_only.

(* Key.verify on a well-formed signature text (any 64 / 96 bytes [raw] under the prefix of curve c', generic
   or not) for a key of curve c with a public point: a foreign curve prefix is rejected whatever the bytes are;
   otherwise the verdict is exactly the native verdict on (public point, raw, payload).  Hence an altered
   message, signature or key is rejected iff the native primitive rejects it. *)
Theorem C07_verify_is_native_verdict : forall P, b58_laws P -> forall k c c' g raw m em,
  ktag k = curve_tag c -> pub k <> [] -> scrub_input m = Ok em -> length raw = siglen c' ->
  key_verify P k (PS (str_of (b58enc P (r_bin (sig_row c' g) ++ raw)))) m =
    if (g && negb (curve_eqb c' BL)) || curve_eqb c c' then raw_verify P c (pub k) raw em else Invalid.
Proof. exact verify_wellformed. Qed.
Print Assumptions C07_verify_is_native_verdict.

(* CHECK_SIGNATURE returns the verdict of Key.verify of the imported public key: True iff verify returns,
   False iff it raises ValueError; it fails only if verify raises something else. *)
Theorem C07_check_signature_agrees : forall P, b58_laws P -> forall c pk sec pks sg msg,
  length pk = pklen c -> public_key P (mkkey pk sec (curve_tag c)) = Ok pks ->
  check_signature P pks sg msg =
    match key_verify P (mkkey pk None (curve_tag c)) (PS sg) (PB msg) with
    | Valid => Ok true | Invalid => Ok false | Crashed => Reject
    end.
Proof. exact check_signature_public. Qed.
Print Assumptions C07_check_signature_agrees.

(* A message given as a hex string (with or without 0x) is the message given as bytes. *)
Theorem C07_hex_message_is_bytes : forall b,
  scrub_input (PS (hex_of b)) = Ok b /\ scrub_input (PS (48 :: 120 :: hex_of b)%N) = Ok b.
Proof. exact scrub_hex. Qed.
Print Assumptions C07_hex_message_is_bytes.

(* ---- non-vacuity: the model evaluated on native calls recorded from the real libraries (Ed25519 key with
   seed 01..20 signing the hex string "c0ffee"; the signature text is the one pytezos returns) ---- *)
Definition ex_table : otable :=
  [("blake2b"%string, [AN 32%N; AB (hx "c0ffee")], (Ret [AB (hx "88f04f011dcded879039ae4b9b20219d9448e5c7b42c2d1f638fb8740e0ab8be")]));
   ("ed_sign"%string, [AB (hx "88f04f011dcded879039ae4b9b20219d9448e5c7b42c2d1f638fb8740e0ab8be"); AB (hx "0102030405060708090a0b0c0d0e0f101112131415161718191a1b1c1d1e1f2079b5562e8fe654f94078b112e8a98ba7901f853ae695bed7e0e3910bad049664")], (Ret [AB (hx "bbdaf8820df5faa9ff1fc3b135682fb0eba8f65485450e72ce1a471cf95084ce310cc9ab9f8a6232129492d842d51673e5ba209914096c79638f5c62a317a60e")]));
   ("b58enc"%string, [AB (hx "09f5cd8612bbdaf8820df5faa9ff1fc3b135682fb0eba8f65485450e72ce1a471cf95084ce310cc9ab9f8a6232129492d842d51673e5ba209914096c79638f5c62a317a60e")], (Ret [AB (tx "edsigtxPDdZsenihf9fzMet5sDYcqr9bVFbxGKwFFsjBaqXfFyFBX5c1co69EpeTHVtER4wjuFDaPTxdF2BU9cvQgRNorPsgEtu")]));
   ("b58dec"%string, [AB (tx "edsigtxPDdZsenihf9fzMet5sDYcqr9bVFbxGKwFFsjBaqXfFyFBX5c1co69EpeTHVtER4wjuFDaPTxdF2BU9cvQgRNorPsgEtu")], (Ret [AB (hx "09f5cd8612bbdaf8820df5faa9ff1fc3b135682fb0eba8f65485450e72ce1a471cf95084ce310cc9ab9f8a6232129492d842d51673e5ba209914096c79638f5c62a317a60e")]));
   ("ed_verify"%string, [AB (hx "bbdaf8820df5faa9ff1fc3b135682fb0eba8f65485450e72ce1a471cf95084ce310cc9ab9f8a6232129492d842d51673e5ba209914096c79638f5c62a317a60e"); AB (hx "88f04f011dcded879039ae4b9b20219d9448e5c7b42c2d1f638fb8740e0ab8be"); AB (hx "79b5562e8fe654f94078b112e8a98ba7901f853ae695bed7e0e3910bad049664")], (Ret [AN 1%N]))].
Definition ex_key (s : option bytes) : key :=
  mkkey (hx "79b5562e8fe654f94078b112e8a98ba7901f853ae695bed7e0e3910bad049664") s (tx "ed").
Definition ex_sk : bytes := hx "0102030405060708090a0b0c0d0e0f101112131415161718191a1b1c1d1e1f2079b5562e8fe654f94078b112e8a98ba7901f853ae695bed7e0e3910bad049664".
Definition ex_sig : pystr := ps "edsigtxPDdZsenihf9fzMet5sDYcqr9bVFbxGKwFFsjBaqXfFyFBX5c1co69EpeTHVtER4wjuFDaPTxdF2BU9cvQgRNorPsgEtu".

Example C07_example_sign :
  key_sign (prims_of ex_table) (ex_key (Some ex_sk)) (PS (ps "c0ffee")) false = Ok ex_sig.
Proof. vm_compute. reflexivity. Qed.

Example C07_example_verify :
  key_verify (prims_of ex_table) (ex_key None) (PS ex_sig) (PB (hx "c0ffee")) = Valid /\
  key_verify (prims_of ex_table) (ex_key None) (PS ex_sig) (PB (hx "c0ffef")) = Crashed /\   (* native call not in the table *)
  key_verify (prims_of ex_table) (mkkey (pub (ex_key None)) None (tx "sp")) (PS ex_sig) (PB (hx "c0ffee")) = Invalid.
Proof. vm_compute. auto. Qed.
