(* C07 — signing and verification are correct for every key kind (glue level; native cryptography is an oracle). *)
From Coq Require Import String.
From Coq Require Import List NArith Bool.
From PV Require Import Base.Bytes Base.Result Client.KeyGlue Client.KeyStore Proofs.KeyGlue_proofs.
Import ListNotations.

Theorem C07_check_signature_is_verify : forall P pk sg msg k,
  from_encoded_key P (PS pk) None = Ok k ->
  check_signature P pk sg msg =
    match key_verify P k (PS sg) (PB msg) with Valid => Ok true | Invalid => Ok false | Crashed => Reject end.
Proof. exact check_signature_def. Qed.
Print Assumptions C07_check_signature_is_verify.
