(* C25 — Injected operations carry the account's next counters.
   Model: Client/Counter.v — node (account counter, pending operations), client (one counter cache per
   lineage of groups sharing an ExecutionContext), calls Fill / Autofill(ok | simulation fails) / Sign /
   Inject(accepted | refused) / Bake, over arbitrary call histories.

   Full statement (property text): for every history h, every accepted injection carries
   counters  nc + pend + 1, ...  :   forall nc0 pend0 h, Forall inj_right (log (run nc0 pend0 h)).
   The faithful model REFUTES it (known finding #24, left in /repo): the cache is advanced by every
   fill()/autofill() and only reset by inject(), and fill() never looks at the mempool
   (C25_refill_refuted, C25_failed_simulation_refuted, C25_fill_mempool_refuted).
   Proved on the complement (C25_counters_partial): histories in which
     - a lineage is filled/autofilled at most once between two of its inject() calls,
     - fill() (without simulation) is only used while the account has nothing pending,
     - a group is injected before any other accepted injection moves the account's next counter
       (a stale group cannot carry the right counters whatever the client does).
   [well_behaved] computes exactly this from the calls (plus "mempool empty" from the node state). *)
From Coq Require Import List NArith Bool.
From PV Require Import Client.Counter Proofs.Counter_proofs.
Import ListNotations.
Local Open Scope N_scope.

Theorem C25_counters_partial : forall nc0 pend0 h,
  well_behaved nc0 pend0 h = true ->
  Forall (fun e => i_ok e = true -> i_start e = i_expect e) (log (run nc0 pend0 h)).
Proof. exact counters_right. Qed.
Print Assumptions C25_counters_partial.

(* stronger: refused attempts carried the expected counters too (a refusal is never the client's fault) *)
Theorem C25_all_attempts_partial : forall nc0 pend0 h,
  well_behaved nc0 pend0 h = true ->
  Forall (fun e => i_start e = i_expect e) (log (run nc0 pend0 h)).
Proof. exact counters_right_all. Qed.
Print Assumptions C25_all_attempts_partial.

(* known finding: op.fill(); op.fill().sign().inject() — node counter 10, the injected counter is 12 *)
Theorem C25_refill_refuted :
  exists nc0 h, all_right (run nc0 0 h) = false /\
    h = [Fill 0 1; Fill 0 1; Inject 1 true] /\
    log (run nc0 0 h) = [{| i_start := nc0 + 2; i_len := 1; i_expect := nc0 + 1; i_ok := true |}].
Proof. exists 10, [Fill 0 1; Fill 0 1; Inject 1 true]. split; [|split]; vm_compute; reflexivity. Qed.
Print Assumptions C25_refill_refuted.

(* known finding: autofill() whose simulation fails, then the corrected autofill() *)
Theorem C25_failed_simulation_refuted :
  exists nc0 h, h = [Autofill 0 2 false; Autofill 0 2 true; Inject 0 true] /\ all_right (run nc0 0 h) = false.
Proof. exists 10, [Autofill 0 2 false; Autofill 0 2 true; Inject 0 true]. split; [reflexivity | exact failed_simulation_shifts]. Qed.
Print Assumptions C25_failed_simulation_refuted.

(* known finding: fill() ignores the operation already pending in the mempool *)
Theorem C25_fill_mempool_refuted :
  exists nc0 h, h = [Autofill 0 1 true; Inject 0 true; Fill 1 1; Inject 1 true] /\ all_right (run nc0 0 h) = false.
Proof.
  exists 10, [Autofill 0 1 true; Inject 0 true; Fill 1 1; Inject 1 true]. split; [reflexivity|].
  exact (proj1 fill_ignores_mempool).
Qed.
Print Assumptions C25_fill_mempool_refuted.

(* non-vacuity: a well-behaved history with an accepted batch, a refused injection, a bake, a second
   lineage and a plain fill(); four injection attempts, all with the expected counters *)
Example C25_example :
  let h := [Autofill 0 2 true; Sign 0; Inject 0 true; Autofill 0 1 true; Inject 1 false; Bake;
            Autofill 1 3 true; Inject 2 true; Bake; Fill 0 1; Inject 3 true] in
  well_behaved 10 0 h = true /\ all_right (run 10 0 h) = true /\
  map (fun e => (i_start e, i_len e, i_ok e)) (log (run 10 0 h)) = [(16, 1, true); (13, 3, true); (13, 1, false); (11, 2, true)].
Proof. exact wb_example. Qed.
