(* C13 — entrypoint resolution and parameter decoding are mutual inverses.
   Model: Michelson/Entrypoints.v (mirrors ParameterSection.create_type / list_entrypoints / from_parameters /
   to_parameters, OrType.iter_type_args, get_type_layout(entrypoints=True), wrap_parameters).

   Every theorem quantifies over ALL union trees [t : uty L] (any depth, any placement of annotations), over an
   arbitrary leaf-type descriptor [L], leaf payload [P] and leaf codec [leaf_dec]/[leaf_enc] (they appear as
   universally quantified arguments), and over all values.  [shape t v] = "v is a value object of t whose leaf
   payload survives the leaf codec" (that the leaf codec round-trips is C11's concern).
   [wf_b t] = Tezos well-formedness (entrypoint names, the root's own annotation included, pairwise distinct —
   Tezos refuses other parameter types).
   [collide_b t] = the known-finding class "root-name-collision": the root is an unannotated union with both a
   %default and a %root branch.  On that class the property FAILS in the code (C13_*_refuted); the *_partial
   theorems are the full statements restricted to its complement. *)
From Coq Require Import List ZArith Bool String.
From PV Require Import Base.Bytes Base.Result Codec.Micheline Michelson.Entrypoints Proofs.Entrypoints_proofs.
Import ListNotations.

(* The name of the root entrypoint: the root's own field annotation; else "default", unless an annotated branch
   is already called "default" — then "root".  (No hypothesis: holds whenever the type is accepted.) *)
Theorem C13_root_name_spec : forall L (t : uty L) rn,
  root_name L t = Ok rn -> spec_root_name L t rn.
Proof. exact root_name_spec. Qed.
Print Assumptions C13_root_name_spec.

(* Full statement: for every well-formed t, list_entrypoints t = the annotated union branches (each with its
   anonymised type) plus the root entrypoint (with the whole type), no name twice.
   Proved here outside the finding class. *)
Theorem C13_list_is_spec_partial : forall L (t : uty L),
  wf_b L t = true -> collide_b L t = false ->
  exists rn es, root_name L t = Ok rn /\ list_entrypoints L t = Ok es /\ NoDup (map fst es) /\
    forall k ty, In (k, ty) es <->
      (k = rn /\ ty = t) \/ (exists q s, branch L t q s k /\ ty = anon L s).
Proof. exact list_entrypoints_char. Qed.
Print Assumptions C13_list_is_spec_partial.

(* inside the class the list is wrong: the %root branch of a well-formed type is not listed *)
Theorem C13_list_refuted :
  wf_b sty kf_type = true /\
  branch sty kf_type [true] (ULeaf (Some n_root) SInt) n_root /\
  list_entrypoints sty kf_type = Ok [(n_default, ULeaf None SNat); (n_root, kf_type)].
Proof. exact kf_list_refuted. Qed.
Print Assumptions C13_list_refuted.

(* to_parameters names the deepest annotated node on the way to the actual variant, or the root when there is
   none, and returns that node's sub-value *)
Theorem C13_to_parameters_deepest : forall L P leaf_dec leaf_enc (t : uty L) (v : uval P) rn,
  wf_b L t = true -> root_name L t = Ok rn -> shape L P leaf_dec leaf_enc t v ->
  exists q s sv e n,
    vreach L P t v q s sv /\ enc L P leaf_enc s sv = Ok n /\ to_parameters L P leaf_enc t v = Ok (e, n) /\
    ((q = [] /\ e = rn) \/ (q <> [] /\ ename L s = Some e)) /\
    (forall q' s' sv', q' <> [] -> vreach L P s sv q' s' sv' -> ename L s' = None).
Proof. exact to_parameters_char. Qed.
Print Assumptions C13_to_parameters_deepest.

(* Full statement: every full parameter value converts to (entrypoint, argument) and back to the same value.
   Proved outside the finding class. *)
Theorem C13_value_roundtrip_partial : forall L P leaf_dec leaf_enc (t : uty L) (v : uval P),
  wf_b L t = true -> collide_b L t = false -> shape L P leaf_dec leaf_enc t v ->
  exists e n, to_parameters L P leaf_enc t v = Ok (e, n) /\ from_parameters L P leaf_dec t e n = Ok v.
Proof. exact value_roundtrip. Qed.
Print Assumptions C13_value_roundtrip_partial.

(* inside the class: parameter (or (nat %default) (int %root)), value Right 2 *)
Theorem C13_value_roundtrip_refuted :
  wf_b sty kf_type = true /\ collide_b sty kf_type = true /\
  shape sty node std_dec std_enc kf_type kf_value /\
  to_parameters sty node std_enc kf_type kf_value = Ok (n_root, NInt 2) /\
  from_parameters sty node std_dec kf_type n_root (NInt 2) = Reject.
Proof. exact kf_value_refuted. Qed.
Print Assumptions C13_value_roundtrip_refuted.

(* Full statement: for every listed entrypoint e : ty and every argument a of ty, from_parameters builds a full
   value v (of the right shape) which converts back to a pair that resolves to v again; and the very pair
   (e, a) comes back whenever no annotated node lies below e on the way to a's variant.
   Proved outside the finding class. *)
Theorem C13_entry_roundtrip_partial : forall L P leaf_dec leaf_enc (t : uty L) es e ty (a : uval P),
  wf_b L t = true -> collide_b L t = false ->
  list_entrypoints L t = Ok es -> In (e, ty) es -> shape L P leaf_dec leaf_enc ty a ->
  exists n v,
    enc L P leaf_enc ty a = Ok n /\ from_parameters L P leaf_dec t e n = Ok v /\
    shape L P leaf_dec leaf_enc t v /\
    (exists e' n', to_parameters L P leaf_enc t v = Ok (e', n') /\ from_parameters L P leaf_dec t e' n' = Ok v) /\
    ((forall q s sv, q <> [] -> vreach L P ty a q s sv -> ename L s = None) ->
     to_parameters L P leaf_enc t v = Ok (e, n)).
Proof. exact entry_roundtrip. Qed.
Print Assumptions C13_entry_roundtrip_partial.

(* names that are not listed are refused *)
Theorem C13_unlisted_rejected : forall L P leaf_dec (t : uty L) rn n e,
  root_name L t = Ok rn -> e <> rn -> ~ In e (branch_names L t) ->
  from_parameters L P leaf_dec t e n = Reject.
Proof. exact from_parameters_unlisted. Qed.
Print Assumptions C13_unlisted_rejected.

(* ---- non-vacuity: parameter (or (or %a nat int) (or (string %b) (unit %default))) — the shape of defect #13:
   an annotated inner node over unannotated leaves ---- *)
Definition ex_type : uty sty :=
  UOr None (UOr (Some (tx "a"%string)) (ULeaf None SNat) (ULeaf None SInt))
           (UOr None (ULeaf (Some (tx "b"%string)) SStr) (ULeaf (Some n_default) SUnit)).

Example C13_example_hyps :
  wf_b sty ex_type = true /\ collide_b sty ex_type = false /\
  shape sty node std_dec std_enc ex_type (VL (VR (VLeaf (NInt (-3))))).
Proof. vm_compute. repeat split; reflexivity. Qed.

Example C13_example_list :
  list_entrypoints sty ex_type =
  Ok [(tx "a"%string, UOr None (ULeaf None SNat) (ULeaf None SInt)); (tx "b"%string, ULeaf None SStr);
      (n_default, ULeaf None SUnit); (n_root, ex_type)].
Proof. vm_compute. reflexivity. Qed.

Example C13_example_to :
  to_parameters sty node std_enc ex_type (VL (VR (VLeaf (NInt (-3)))))
  = Ok (tx "a"%string, NPrim tag_Right [NInt (-3)] []).
Proof. vm_compute. reflexivity. Qed.

Example C13_example_from :
  from_parameters sty node std_dec ex_type (tx "a"%string) (NPrim tag_Right [NInt (-3)] [])
  = Ok (VL (VR (VLeaf (NInt (-3))))).
Proof. vm_compute. reflexivity. Qed.
