(* C29 — Chain-history search reports exactly the state changes.
   Model: Client/Search.v (mirrors find_state_change_intervals, find_state_change,
   walk_state_change_interval, find_state_changes of src/pytezos/rpc/search.py).
   The node is an arbitrary function [get : Z -> V]; [eqb] is the user's `equals`.
   The search looks at values only through `equals`, so the main theorems assume just that [eqb] is
   (the boolean of) an EQUIVALENCE relation on values (reflexive, symmetric, transitive) - e.g. "the
   relevant field of two dict values is the same" - and everything is stated modulo it:
     [no_return eqb get lo hi]: inside [lo, hi] a value never comes back
        (eqb (get a) (get c) = true with a < b < c forces eqb (get b) (get a) = true);
     [changes eqb get lo hi] = the pairs (l, get l) for the levels l of (lo, hi] with
        eqb (get l) (get (l-1)) = false, lowest level first (C29_changes_spec).
   The value reported for a level is the value found there (get l), not a representative.
   The *_for_equality corollaries restate everything with = and <> for an `equals` that decides
   equality (what the callers in pytezos pass).
   [None] is the model's out-of-fuel result (Python: unbounded recursion / loop); every theorem
   below shows the result is [Some _], i.e. the fuel Z.to_nat (head - last) always suffices. *)
From Coq Require Import List ZArith Bool Sorted.
From PV Require Import Client.Search Proofs.Search_proofs.
Import ListNotations.
Local Open Scope Z_scope.

Definition equivalence {V} (eqb : V -> V -> bool) : Prop :=
  (forall a, eqb a a = true) /\ (forall a b, eqb a b = true -> eqb b a = true) /\
  (forall a b c, eqb a b = true -> eqb b c = true -> eqb a c = true).

(* what the specification list is: exactly the change points of (lo, hi] (w.r.t. equals), each
   with the value found there, in strictly increasing level order (no duplicates, nothing else) *)
Theorem C29_changes_spec : forall (V : Type) (eqb : V -> V -> bool), equivalence eqb ->
  forall (get : Z -> V) (lo hi : Z), lo <= hi ->
  (forall l v, In (l, v) (changes eqb get lo hi) <-> lo < l <= hi /\ v = get l /\ eqb (get l) (get (l - 1)) = false) /\
  StronglySorted Z.lt (map fst (changes eqb get lo hi)).
Proof.
  intros V eqb (Hr & Hs & Ht) get lo hi Hle. split.
  - intros l v. now apply changes_in.
  - now apply changes_sorted.
Qed.
Print Assumptions C29_changes_spec.

(* the range search: for every equivalence `equals`, every history without returning values
   (modulo equals), every range last <= head and every sampling step >= 1, the reported list is
   exactly the list of state changes *)
Theorem C29_changes_exact : forall (V : Type) (eqb : V -> V -> bool), equivalence eqb ->
  forall (get : Z -> V) (head last step : Z),
  1 <= step -> last <= head -> no_return eqb get last head ->
  find_state_changes eqb get head last step = Some (changes eqb get last head).
Proof. intros V eqb (Hr & Hs & Ht). now apply find_state_changes_exact. Qed.
Print Assumptions C29_changes_exact.

(* the single-change search returns the FIRST level after the start whose value is not
   equivalent to pred_value (= the start value up to equals), with the value found there *)
Theorem C29_bisect_first_change : forall (V : Type) (eqb : V -> V -> bool), equivalence eqb ->
  forall (get : Z -> V) (pred : V) (start end_ : Z),
  start < end_ -> eqb (get start) pred = true -> eqb (get end_) pred = false -> no_return eqb get start end_ ->
  exists l, find_state_change eqb get end_ start pred = Some (l, get l) /\
            start < l <= end_ /\ eqb (get l) pred = false /\ forall m, start <= m < l -> eqb (get m) pred = true.
Proof. intros V eqb (Hr & Hs & Ht). now apply find_state_change_first. Qed.
Print Assumptions C29_bisect_first_change.

(* without any hypothesis on the history bisection still terminates within its fuel and returns
   a genuine change point: the value below it is equivalent to pred_value, the value at it is not *)
Theorem C29_bisect_finds_a_change : forall (V : Type) (eqb : V -> V -> bool), equivalence eqb ->
  forall (get : Z -> V) (pred : V) (start end_ : Z),
  start < end_ -> eqb (get start) pred = true -> eqb (get end_) pred = false ->
  exists l, find_state_change eqb get end_ start pred = Some (l, get l) /\
            start < l <= end_ /\ eqb (get (l - 1)) pred = true /\ eqb (get l) pred = false.
Proof. intros V eqb (Hr & Hs & Ht). now apply find_state_change_a_change. Qed.
Print Assumptions C29_bisect_finds_a_change.

(* walking one interval; the head value handed over need only be equivalent to get hi (the
   interval finder hands over the value of an earlier sample) *)
Theorem C29_walk_interval_exact : forall (V : Type) (eqb : V -> V -> bool), equivalence eqb ->
  forall (get : Z -> V) (lo hi : Z) (hv : V), eqb hv (get hi) = true -> lo <= hi -> no_return eqb get lo hi ->
  walk_state_change_interval eqb get hi lo hv (get lo) = Some (changes eqb get lo hi).
Proof. intros V eqb (Hr & Hs & Ht). now apply walk_interval_correct. Qed.
Print Assumptions C29_walk_interval_exact.

(* "and nothing else", unconditionally: for EVERY history (values may come back) the search
   terminates within its fuel, every reported pair is a genuine change point of (last, head]
   carrying the value found there, and levels strictly increase; only completeness (each
   change is reported) needs the no-return hypothesis, see C29_no_return_needed below *)
Theorem C29_reported_are_changes : forall (V : Type) (eqb : V -> V -> bool), equivalence eqb ->
  forall (get : Z -> V) (head last step : Z), 1 <= step -> last <= head ->
  exists r, find_state_changes eqb get head last step = Some r /\
            (forall l v, In (l, v) r -> last < l <= head /\ v = get l /\ eqb (get l) (get (l - 1)) = false) /\
            StronglySorted Z.lt (map fst r).
Proof. intros V eqb (Hr & Hs & Ht). now apply find_state_changes_sound. Qed.
Print Assumptions C29_reported_are_changes.

(* ---- corollaries for an `equals` that decides equality, stated with = and <> ---- *)
Corollary C29_changes_exact_for_equality : forall (V : Type) (eqb : V -> V -> bool),
  (forall a b, eqb a b = true <-> a = b) ->
  forall (get : Z -> V) (head last step : Z),
  1 <= step -> last <= head -> no_return_eq get last head ->
  find_state_changes eqb get head last step = Some (changes eqb get last head) /\
  (forall l v, In (l, v) (changes eqb get last head) <-> last < l <= head /\ v = get l /\ get l <> get (l - 1)) /\
  StronglySorted Z.lt (map fst (changes eqb get last head)).
Proof.
  intros V eqb Hspec get head last step Hs Hle Hnr. split; [now apply find_state_changes_exact_eq|].
  split; [intros l v; now apply changes_in_eq|].
  exact (changes_sorted eqb (eq_refl' eqb Hspec) (eq_sym' eqb Hspec) (eq_trans' eqb Hspec) get last head).
Qed.
Print Assumptions C29_changes_exact_for_equality.

Corollary C29_bisect_first_change_for_equality : forall (V : Type) (eqb : V -> V -> bool),
  (forall a b, eqb a b = true <-> a = b) ->
  forall (get : Z -> V) (pred : V) (start end_ : Z),
  start < end_ -> get start = pred -> get end_ <> pred -> no_return_eq get start end_ ->
  exists l, find_state_change eqb get end_ start pred = Some (l, get l) /\
            start < l <= end_ /\ get l <> pred /\ forall m, start <= m < l -> get m = pred.
Proof. exact @find_state_change_first_eq. Qed.
Print Assumptions C29_bisect_first_change_for_equality.

Corollary C29_bisect_finds_a_change_for_equality : forall (V : Type) (eqb : V -> V -> bool),
  (forall a b, eqb a b = true <-> a = b) ->
  forall (get : Z -> V) (pred : V) (start end_ : Z),
  start < end_ -> get start = pred -> get end_ <> pred ->
  exists l, find_state_change eqb get end_ start pred = Some (l, get l) /\
            start < l <= end_ /\ get (l - 1) = pred /\ get l <> pred.
Proof. exact @find_state_change_a_change_eq. Qed.
Print Assumptions C29_bisect_finds_a_change_for_equality.

Corollary C29_reported_are_changes_for_equality : forall (V : Type) (eqb : V -> V -> bool),
  (forall a b, eqb a b = true <-> a = b) ->
  forall (get : Z -> V) (head last step : Z), 1 <= step -> last <= head ->
  exists r, find_state_changes eqb get head last step = Some r /\
            (forall l v, In (l, v) r -> last < l <= head /\ v = get l /\ get l <> get (l - 1)) /\
            StronglySorted Z.lt (map fst r).
Proof. exact @find_state_changes_sound_eq. Qed.
Print Assumptions C29_reported_are_changes_for_equality.

(* the sampled levels: strictly descending from below head down to last itself (the partial
   lowest step is searched), every head - k*step above last is among them, and the fuel of
   the range model is sufficient (more fuel gives the same list) *)
Theorem C29_sampled_levels : forall (head last step : Z), 1 <= step -> last <= head ->
  desc head (sample_levels head last step) /\
  bottom head (sample_levels head last step) = last /\
  (forall k, 1 <= k -> last < head - k * step -> In (head - k * step) (sample_levels head last step)) /\
  (forall f, head - step - last <= Z.of_nat f ->
     range_down f (head - step) last step = range_down (Z.to_nat (head - last)) (head - step) last step).
Proof.
  intros head last step Hs Hle.
  destruct (sample_levels_props head last step Hs Hle) as [H1 H2].
  split; [exact H1|]. split; [exact H2|]. split.
  - intros k Hk Hin. unfold sample_levels. apply in_or_app. left.
    replace (head - k * step) with (head - step - (k - 1) * step) by ring.
    apply range_down_complete; auto.
    + apply Z.le_0_sub. exact Hk.
    + rewrite Z2Nat.id.
      * apply Z.sub_le_mono_r. apply Z.le_sub_nonneg. apply Z.le_trans with 1; [discriminate | exact Hs].
      * apply Z.le_0_sub. exact Hle.
    + replace (head - step - (k - 1) * step) with (head - k * step) by ring. exact Hin.
  - intros f Hf. apply range_down_fuel; auto.
    rewrite Z2Nat.id.
    + apply Z.sub_le_mono_r. apply Z.le_sub_nonneg. apply Z.le_trans with 1; [discriminate | exact Hs].
    + apply Z.le_0_sub. exact Hle.
Qed.
Print Assumptions C29_sampled_levels.

(* ---- non-vacuity: a history with three change points, one at last+1, two adjacent, one at head ---- *)
Definition ex_get : Z -> Z := pw 7 [(101, 8); (130, 9); (131, 10); (160, 11)].

Example C29_example_run :
  find_state_changes Z.eqb ex_get 160 100 25 = Some [(101, 8); (130, 9); (131, 10); (160, 11)]
  /\ find_state_change Z.eqb ex_get 160 100 7 = Some (101, 8)
  /\ find_state_change_intervals Z.eqb ex_get 160 100 25 = [(160, 11, 135, 10); (135, 10, 110, 8); (110, 8, 100, 7)].
Proof. vm_compute. repeat split. Qed.

(* the hypotheses of C29_changes_exact are satisfiable: Z.eqb decides equality, and a strictly
   increasing history never returns to a value *)
Example C29_hypotheses_satisfiable :
  (forall a b, Z.eqb a b = true <-> a = b) /\ no_return_eq (fun x : Z => x / 10) 0 1000.
Proof.
  split; [exact Z.eqb_eq|].
  intros a b c Ha Hab Hbc Hc E.
  assert (Hm1 : a / 10 <= b / 10) by (apply Z.div_le_mono; [reflexivity | apply Z.lt_le_incl; exact Hab]).
  assert (Hm2 : b / 10 <= c / 10) by (apply Z.div_le_mono; [reflexivity | apply Z.lt_le_incl; exact Hbc]).
  rewrite <- E in Hm2. apply Z.le_antisymm; assumption.
Qed.

(* the no-return hypothesis cannot be dropped from C29_changes_exact: a value that comes back
   between two samples hides both changes *)
Example C29_no_return_needed :
  let g := pw 1 [(110, 2); (120, 1)] in
  find_state_changes Z.eqb g 160 100 60 = Some [] /\ changes Z.eqb g 100 160 = [(110, 2); (120, 1)].
Proof. vm_compute. split; reflexivity. Qed.

(* an `equals` coarser than equality is an equivalence, and the search run with it reports the
   changes of the compared field while the ignored field (level mod 3) drifts *)
Example C29_coarse_equals :
  equivalence fst_eqb /\
  find_state_changes fst_eqb (pw2 7 [(101, 8); (130, 9)] 3) 160 100 25 = Some [(101, (8, 2)); (130, (9, 1))].
Proof.
  split.
  - unfold equivalence, fst_eqb. repeat split.
    + intros a. apply Z.eqb_refl.
    + intros a b H. apply Z.eqb_eq in H. apply Z.eqb_eq. now symmetry.
    + intros a b c H1 H2. apply Z.eqb_eq in H1. apply Z.eqb_eq in H2. apply Z.eqb_eq. congruence.
  - vm_compute. reflexivity.
Qed.
