(* C22 — a failing REPL cell leaves the session as if it never ran.
   Model: Michelson/Repl.v (Interpreter.execute = backup, run, restore on failure; big_maps on the
   stack hold a reference to a context object; deepcopy as implemented after /repo commit 26d2050 =
   mode [Rebind], as implemented before = mode [Alias]).
   [run m s cells] executes the cells from session [s] and returns the final session and one result
   per cell ([RFail], or [RDone outputs] with the lazy diffs / results of COMMIT, RUN, BIG_MAP_DIFF).
   [keep_done cells rs] removes the cells that failed.  [view s] is what an observer can see of a
   session: the stack (Micheline values, types, big_map ids and pending diffs — not the identity of
   the context object behind a big_map) and every modelled field of the interpreter's context.
   [swf s]: every big_map on the stack is attached to the interpreter's current context.
   Cells are arbitrary lists over the modelled alphabet; an instruction fails whenever the Python
   code raises, so failures occur at every instruction position (FAILWITH, underflow, ill-typed
   operands and literals, overflow, undeclared sections, unparsable cells), also inside DIP / DIP n /
   IF / IF_NONE / LOOP bodies and inside lambdas run by EXEC.  No length bound.
   Fuel: every LOOP iteration and every EXEC consumes one unit of [fuel]; a cell on which the model
   runs out of fuel has result [RFuel].  The theorems hold for every amount of fuel and state their
   claim for the runs in which no cell ran out of it ([forallb fuel_ok rs = true]), so nothing is
   true "because the fuel ran out". *)
From Coq Require Import List ZArith Bool.
From PV Require Import Michelson.Repl Proofs.Repl_proofs.
Import ListNotations.

(* the property: for every cell sequence, the session with the failing cells removed yields exactly
   the results of the surviving cells (big_map ids and lazy diffs included), ends with the same
   stack and context, and does not run out of fuel either *)
Theorem C22_failed_cell_is_noop : forall fuel cells,
  let rs := snd (run Rebind fuel init cells) in
  forallb fuel_ok rs = true ->
  snd (run Rebind fuel init (keep_done cells rs)) = filter is_done rs /\
  view (fst (run Rebind fuel init (keep_done cells rs))) = view (fst (run Rebind fuel init cells)) /\
  forallb fuel_ok (snd (run Rebind fuel init (keep_done cells rs))) = true.
Proof.
  intros fuel cells rs H.
  destruct (run_noop fuel cells init init swf_init swf_init eq_refl) as [E1 E2].
  fold rs in E1, E2. repeat split; try assumption. rewrite E1. apply filter_fuel_ok, H.
Qed.
Print Assumptions C22_failed_cell_is_noop.

(* the same from any two sessions that look alike and satisfy the invariant (not only the initial one) *)
Theorem C22_failed_cell_is_noop_from : forall fuel cells s s2,
  swf s -> swf s2 -> view s = view s2 ->
  let rs := snd (run Rebind fuel s cells) in
  forallb fuel_ok rs = true ->
  snd (run Rebind fuel s2 (keep_done cells rs)) = filter is_done rs /\
  view (fst (run Rebind fuel s2 (keep_done cells rs))) = view (fst (run Rebind fuel s cells)).
Proof. intros fuel cells s s2 W W2 E rs _. exact (run_noop fuel cells s s2 W W2 E). Qed.
Print Assumptions C22_failed_cell_is_noop_from.

(* in the session without the failing cells no cell fails *)
Theorem C22_reduced_session_has_no_failure : forall fuel cells,
  let rs := snd (run Rebind fuel init cells) in
  forallb fuel_ok rs = true ->
  forallb is_done (snd (run Rebind fuel init (keep_done cells rs))) = true.
Proof.
  intros fuel cells rs _. destruct (run_noop fuel cells init init swf_init swf_init eq_refl) as [E _].
  fold rs in E. rewrite E. apply filter_done_all.
Qed.
Print Assumptions C22_reduced_session_has_no_failure.

(* one failing cell (not one cut off by the fuel): stack and context look as before, the invariant
   is re-established *)
Theorem C22_failing_cell_restores_session : forall fuel c s,
  swf s -> snd (exec_cell Rebind fuel s c) = RFail ->
  view (fst (exec_cell Rebind fuel s c)) = view s /\ swf (fst (exec_cell Rebind fuel s c)).
Proof. intros fuel c s W E. apply exec_cell_fail; [exact W|rewrite E; reflexivity]. Qed.
Print Assumptions C22_failing_cell_restores_session.

(* the invariant behind it: after any cell sequence every big_map on the stack is attached to the
   interpreter's current context *)
Theorem C22_big_maps_stay_attached : forall fuel cells, swf (fst (run Rebind fuel init cells)).
Proof. intros fuel cells. apply run_swf, swf_init. Qed.
Print Assumptions C22_big_maps_stay_attached.

(* every later observable result: sessions that look alike cannot be told apart by any continuation *)
Theorem C22_equal_views_equal_futures : forall fuel cells s s2,
  swf s -> swf s2 -> view s = view s2 ->
  snd (run Rebind fuel s cells) = snd (run Rebind fuel s2 cells) /\
  view (fst (run Rebind fuel s cells)) = view (fst (run Rebind fuel s2 cells)).
Proof. exact run_rel. Qed.
Print Assumptions C22_equal_views_equal_futures.

(* the restore as it was before commit 26d2050 (big_maps of the stack backup keep pointing at the
   discarded context) violates the property: with the failing cell the two COMMITs hand out ids 0, 0;
   without it 0, 1 (no cell of the witness needs fuel) *)
Theorem C22_alias_refuted : exists fuel cells,
  let rs := snd (run Alias fuel init cells) in
  forallb fuel_ok rs = true /\
  snd (run Alias fuel init (keep_done cells rs)) <> filter is_done rs.
Proof.
  exists 8, witness_19. cbv zeta. split; [vm_compute; reflexivity|]. intro H.
  pose proof alias_refuted as [A B]. cbv zeta in A, B. rewrite H in B.
  vm_compute in B. discriminate.
Qed.
Print Assumptions C22_alias_refuted.

(* ... and only through big_maps on the stack: the old restore satisfies the property on every cell
   sequence in which no cell fails while a big_map is on the stack ([alias_safe], decidable by running
   the model; this was the class of the known finding before the fix) *)
Theorem C22_alias_partial : forall fuel cells,
  alias_safe fuel init cells = true ->
  let rs := snd (run Alias fuel init cells) in
  forallb fuel_ok rs = true ->
  snd (run Alias fuel init (keep_done cells rs)) = filter is_done rs /\
  view (fst (run Alias fuel init (keep_done cells rs))) = view (fst (run Alias fuel init cells)).
Proof. intros fuel cells H rs _. exact (alias_partial fuel cells H). Qed.
Print Assumptions C22_alias_partial.

Example C22_alias_class_excludes_witness : alias_safe 8 init witness_19 = false.
Proof. exact alias_safe_witness. Qed.

(* non-vacuity: in the repaired mode the same session has a failing cell, big_maps on the stack at
   that moment, and the ids 0, 1 with and without it *)
Example C22_example :
  let rs := snd (run Rebind 8 init witness_19) in
  map is_done rs = [true; true; true; false; true; true; true] /\
  commit_ids rs = [0; 1]%Z /\
  commit_ids (snd (run Rebind 8 init (keep_done witness_19 rs))) = [0; 1]%Z.
Proof. exact rebind_witness. Qed.

(* non-vacuity for the larger alphabet (the shape of seed C22-7): a lambda that allocates a big_map is
   stored by the first cell; the second cell EXECutes it, updates the big_map and fails; no fuel problem;
   the temporary id drawn by the failing cell is given back (one id in use at the end) *)
Example C22_stored_lambda_example :
  let rs := snd (run Rebind 8 init stored_lambda_session) in
  map is_done rs = [true; false; true; true; true] /\
  forallb fuel_ok rs = true /\
  c_tmp (snd (view (fst (run Rebind 8 init stored_lambda_session)))) = 1%Z.
Proof. exact stored_lambda_example. Qed.
