(* C22 — a failing REPL cell leaves the session as if it never ran.
   Model: Michelson/Repl.v (Interpreter.execute = backup, run, restore on failure; big_maps on the
   stack hold a reference to a context object; deepcopy as implemented after /repo commit 26d2050 =
   mode [Rebind], as implemented before = mode [Alias]).
   [run m s cells] executes the cells from session [s] and returns the final session and one result
   per cell ([RFail], or [RDone outputs] with the lazy diffs / results of COMMIT, RUN, BIG_MAP_DIFF).
   [keep_done cells rs] removes the cells that failed.  [view s] is what an observer can see of a
   session: the stack (Micheline values, types, big_map ids and pending diffs — not the identity of
   the context object behind a big_map) and every modelled field of the interpreter's context.
   [swf s]: every big_map on the stack is attached to the interpreter's current context.
   Cells are arbitrary lists over the modelled alphabet; an instruction fails whenever the Python
   code raises, so failures occur at every instruction position (FAILWITH, underflow, ill-typed
   operands and literals, overflow, undeclared sections, unparsable cells).  No length bound. *)
From Coq Require Import List ZArith Bool.
From PV Require Import Michelson.Repl Proofs.Repl_proofs.
Import ListNotations.

(* the property: for every cell sequence, the session with the failing cells removed yields exactly
   the results of the surviving cells (big_map ids and lazy diffs included) and ends with the same
   stack and context *)
Theorem C22_failed_cell_is_noop : forall cells,
  let rs := snd (run Rebind init cells) in
  snd (run Rebind init (keep_done cells rs)) = filter is_done rs /\
  view (fst (run Rebind init (keep_done cells rs))) = view (fst (run Rebind init cells)).
Proof. intro cells. exact (run_noop cells init init swf_init swf_init eq_refl). Qed.
Print Assumptions C22_failed_cell_is_noop.

(* the same from any two sessions that look alike and satisfy the invariant (not only the initial one) *)
Theorem C22_failed_cell_is_noop_from : forall cells s s2,
  swf s -> swf s2 -> view s = view s2 ->
  let rs := snd (run Rebind s cells) in
  snd (run Rebind s2 (keep_done cells rs)) = filter is_done rs /\
  view (fst (run Rebind s2 (keep_done cells rs))) = view (fst (run Rebind s cells)).
Proof. exact run_noop. Qed.
Print Assumptions C22_failed_cell_is_noop_from.

(* in the session without the failing cells no cell fails *)
Theorem C22_reduced_session_has_no_failure : forall cells,
  forallb is_done (snd (run Rebind init (keep_done cells (snd (run Rebind init cells))))) = true.
Proof.
  intro cells. destruct (run_noop cells init init swf_init swf_init eq_refl) as [E _].
  rewrite E. apply filter_done_all.
Qed.
Print Assumptions C22_reduced_session_has_no_failure.

(* one failing cell: stack and context look as before, the invariant is re-established *)
Theorem C22_failing_cell_restores_session : forall c s,
  swf s -> snd (exec_cell Rebind s c) = RFail ->
  view (fst (exec_cell Rebind s c)) = view s /\ swf (fst (exec_cell Rebind s c)).
Proof. exact exec_cell_fail. Qed.
Print Assumptions C22_failing_cell_restores_session.

(* the invariant behind it: after any cell sequence every big_map on the stack is attached to the
   interpreter's current context *)
Theorem C22_big_maps_stay_attached : forall cells, swf (fst (run Rebind init cells)).
Proof. intro cells. apply run_swf, swf_init. Qed.
Print Assumptions C22_big_maps_stay_attached.

(* every later observable result: sessions that look alike cannot be told apart by any continuation *)
Theorem C22_equal_views_equal_futures : forall cells s s2,
  swf s -> swf s2 -> view s = view s2 ->
  snd (run Rebind s cells) = snd (run Rebind s2 cells) /\
  view (fst (run Rebind s cells)) = view (fst (run Rebind s2 cells)).
Proof. exact run_rel. Qed.
Print Assumptions C22_equal_views_equal_futures.

(* the restore as it was before commit 26d2050 (big_maps of the stack backup keep pointing at the
   discarded context) violates the property: with the failing cell the two COMMITs hand out ids 0, 0;
   without it 0, 1 *)
Theorem C22_alias_refuted : exists cells,
  let rs := snd (run Alias init cells) in
  snd (run Alias init (keep_done cells rs)) <> filter is_done rs.
Proof.
  exists witness_19. cbv zeta. intro H.
  pose proof alias_refuted as [A B]. cbv zeta in A, B. rewrite H in B.
  vm_compute in B. discriminate.
Qed.
Print Assumptions C22_alias_refuted.

(* ... and only through big_maps on the stack: the old restore satisfies the property on every cell
   sequence in which no cell fails while a big_map is on the stack ([alias_safe], decidable by running
   the model; this was the class of the known finding before the fix) *)
Theorem C22_alias_partial : forall cells,
  alias_safe init cells = true ->
  let rs := snd (run Alias init cells) in
  snd (run Alias init (keep_done cells rs)) = filter is_done rs /\
  view (fst (run Alias init (keep_done cells rs))) = view (fst (run Alias init cells)).
Proof. exact alias_partial. Qed.
Print Assumptions C22_alias_partial.

Example C22_alias_class_excludes_witness : alias_safe init witness_19 = false.
Proof. exact alias_safe_witness. Qed.

(* non-vacuity: in the repaired mode the same session has a failing cell, big_maps on the stack at
   that moment, and the ids 0, 1 with and without it *)
Example C22_example :
  let rs := snd (run Rebind init witness_19) in
  map is_done rs = [true; true; true; false; true; true; true] /\
  commit_ids rs = [0; 1]%Z /\
  commit_ids (snd (run Rebind init (keep_done witness_19 rs))) = [0; 1]%Z.
Proof. exact rebind_witness. Qed.
