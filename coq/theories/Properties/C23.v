(* C23 — Operation groups from any account kind are signed and hashed per protocol.
   Model: Client/OpSign.v (OperationGroup.sign / binary_payload / hash, validation passes, the base58
   prefix chosen by Key.sign(generic=True)) on top of Codec/Ops.v (forged bytes = canonical encoding,
   C06_py_is_spec).

   PARTIAL BY NATURE: the signature schemes, Blake2b and base58check are not computed in Coq.  Each
   theorem quantifies over arbitrary oracles
       sign_raw / verify_raw / pk_of   per-curve signature scheme on the watermarked message
       blake2b32, b58 / unb58          hash and base58check
   and assumes of them only the laws listed as premises:
       (L1) verify_raw c (pk_of c k) m (sign_raw c k m) = true        correctness of the scheme
       (L2) length (sign_raw c k m) = 64, or 96 for BLS               signature sizes
       (L3) unb58 (b58 kind raw) = Some raw  for payloads of the kind's length   (C09's round trip)
   What is proved is the glue: watermark rule, the message that is signed, that signing succeeds for
   all four curves (the prefix chosen fits the signature length), what is appended to the forged
   bytes, and the hash formula.  That the real libraries satisfy L1-L3 is exercised by the
   correspondence run with independent verifiers, not proved. *)
From Coq.Strings Require Import Byte.
From Coq Require Import List NArith ZArith Bool.
From PV Require Import Base.Bytes Base.Result Codec.Ops Client.OpSign Proofs.OpSign_proofs.
Import ListNotations.

(* for every curve, key, group with one validation pass (and a chain id when it is a consensus group):
   signing succeeds; the signed message is watermark ++ canonical bytes with watermark 0x03, or
   0x02 ++ chain id for consensus operations; the signature verifies over it *)
Theorem C23_sign_verifies_partial :
  forall (sk pk : Type) (pk_of : kcurve -> sk -> pk) (sign_raw : kcurve -> sk -> bytes -> bytes)
         (verify_raw : kcurve -> pk -> bytes -> bytes -> bool) (b58 : b58kind -> bytes -> bytes),
  (forall c k m, verify_raw c (pk_of c k) m (sign_raw c k m) = true) ->
  (forall c k m, length (sign_raw c k m) = b58_len (sig_kind c)) ->
  forall cv key g chain,
  uniform_pass g -> (consensus_group g = true -> chain <> None) ->
  exists s, sign_group sk sign_raw b58 cv key g chain = Ok s /\
            s_msg s = spec_watermark g (chain_bytes chain) ++ enc_group g /\
            verify_raw cv (pk_of cv key) (s_msg s) (s_sig s) = true /\
            s_kind s = sig_kind cv /\ s_text s = b58 (sig_kind cv) (s_sig s).
Proof. intros sk pk pk_of sign_raw verify_raw b58 L1 L2. exact (sign_group_verifies sk pk pk_of sign_raw verify_raw b58 L1 L2). Qed.
Print Assumptions C23_sign_verifies_partial.

(* whatever sign() returns was produced under the prescribed watermark from a single-pass group *)
Theorem C23_watermark_rule :
  forall (sk : Type) (sign_raw : kcurve -> sk -> bytes -> bytes) (b58 : b58kind -> bytes -> bytes) cv key g chain s,
  sign_group sk sign_raw b58 cv key g chain = Ok s ->
  uniform_pass g /\ (consensus_group g = true -> chain <> None) /\
  s_msg s = spec_watermark g (chain_bytes chain) ++ enc_group g /\
  s_sig s = sign_raw cv key (s_msg s) /\ s_text s = b58 (s_kind s) (s_sig s) /\ length (s_sig s) = b58_len (s_kind s).
Proof. intros sk sign_raw b58. exact (sign_group_sound sk sign_raw b58). Qed.
Print Assumptions C23_watermark_rule.

(* groups mixing validation passes, empty groups, and consensus groups without a chain id are refused *)
Theorem C23_mixed_rejected :
  forall (sk : Type) (sign_raw : kcurve -> sk -> bytes -> bytes) (b58 : b58kind -> bytes -> bytes) cv key g chain,
  ~ (uniform_pass g /\ (consensus_group g = true -> chain <> None)) ->
  sign_group sk sign_raw b58 cv key g chain = Reject.
Proof. intros sk sign_raw b58. exact (sign_group_rejects sk sign_raw b58). Qed.
Print Assumptions C23_mixed_rejected.

(* the injected payload is canonical bytes ++ raw signature and the group hash is
   base58 "o" (Blake2b-256 (payload)) *)
Theorem C23_hash_formula_partial :
  forall (sk : Type) (sign_raw : kcurve -> sk -> bytes -> bytes) (blake2b32 : bytes -> bytes)
         (b58 : b58kind -> bytes -> bytes) (unb58 : bytes -> option bytes),
  (forall kd raw, length raw = b58_len kd -> unb58 (b58 kd raw) = Some raw) ->
  forall cv key g chain s,
  sign_group sk sign_raw b58 cv key g chain = Ok s ->
  binary_payload unb58 g s = Ok (enc_group g ++ s_sig s) /\
  op_hash blake2b32 b58 unb58 g s = Ok (b58 KOpHash (blake2b32 (enc_group g ++ s_sig s))).
Proof. intros sk sign_raw blake2b32 b58 unb58 L3. exact (op_hash_formula sk sign_raw blake2b32 b58 unb58 L3). Qed.
Print Assumptions C23_hash_formula_partial.

(* the premises L1-L3 are satisfiable together *)
Example C23_laws_satisfiable :
  exists (sign_raw : kcurve -> unit -> bytes -> bytes) (verify_raw : kcurve -> unit -> bytes -> bytes -> bool)
         (b58 : b58kind -> bytes -> bytes) (unb58 : bytes -> option bytes),
    (forall c k m, verify_raw c tt m (sign_raw c k m) = true) /\
    (forall c k m, length (sign_raw c k m) = b58_len (sig_kind c)) /\
    (forall kd raw, length raw = b58_len kd -> unb58 (b58 kd raw) = Some raw).
Proof. exact laws_satisfiable. Qed.

(* and the hypotheses on the group: a consensus group and a manager group *)
Example C23_example :
  let g1 := mkg (repeat xaa 32) [CEndorsement 7] in
  let g2 := mkg (repeat xaa 32) [CManager (mkh (KBl, repeat x11 20) 1 2 3 4) (MDelegation None)] in
  uniform_pass g1 /\ consensus_group g1 = true /\ spec_watermark g1 [x01; x02; x03; x04] = [x02; x01; x02; x03; x04] /\
  uniform_pass g2 /\ consensus_group g2 = false /\ spec_watermark g2 [] = [x03] /\
  run_case (KBl, g2, None, repeat x55 96) =
    Ok ([x03] ++ enc_group g2, 1%N, enc_group g2 ++ repeat x55 96).
Proof. cbn -[enc_group run_case repeat]. repeat split; try (repeat constructor). Qed.
