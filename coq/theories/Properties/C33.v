(* C33 — Registered global constants expand wherever they occur.
   Model: Michelson/Constants.v (mirrors ExecutionContext.register_global_constant,
   resolve_global_constants and reset of /repo/src/pytezos/context/impl.py).

   [resolve reg fuel n]: the expansion of tree n against registry reg; one unit of fuel is spent per
   lookup of a registered expression (pytezos recurses into it); [RFuel] = budget exhausted,
   [RReject] = pytezos raises.  [Resolved reg n m] is the specification: m is n with every
   constant node replaced by the resolved registered expression its hash names, everything
   else (primitives, annotations, literals, order, sequences inside sequences) kept.
   [Stuck reg n]: a reachable reference is malformed or names an unregistered hash.
   The hash function is a parameter of [register] (nothing is assumed about it). *)
From Coq Require Import List ZArith NArith Bool Arith.
From Coq.Strings Require Import Byte.
From PV Require Import Base.Bytes Codec.Micheline Codec.Prims Codec.MichelineBin Michelson.Constants.
From PV Require Import Proofs.Constants_proofs.
Import ListNotations.

(* ---- whatever resolve returns is the specified expansion, and contains no constant node *)
Theorem C33_resolve_spec : forall reg f n m,
  resolve reg f n = ROk m -> Resolved reg n m /\ no_constant m = true.
Proof.
  intros reg f n m H. pose proof (resolve_sound reg f n m H) as HR.
  split; [exact HR|exact (proj1 (Resolved_no_constant reg) n m HR)].
Qed.
Print Assumptions C33_resolve_spec.

(* ---- conversely every specified expansion is computed (with any sufficient budget), and the
        specification determines the result *)
Theorem C33_resolve_complete : forall reg n m,
  Resolved reg n m -> exists f0, forall f, f0 <= f -> resolve reg f n = ROk m.
Proof. intro reg. exact (proj1 (resolve_complete reg)). Qed.
Print Assumptions C33_resolve_complete.

Theorem C33_spec_functional : forall reg n m m', Resolved reg n m -> Resolved reg n m' -> m = m'.
Proof. exact Resolved_functional. Qed.
Print Assumptions C33_spec_functional.

(* ---- a tree without references is returned unchanged; hence a resolved tree is a fixpoint *)
Theorem C33_untouched : forall reg f n, no_constant n = true -> resolve reg f n = ROk n.
Proof. exact resolve_no_constant. Qed.
Print Assumptions C33_untouched.

Theorem C33_resolved_is_fixpoint : forall reg f f' n m,
  resolve reg f n = ROk m -> resolve reg f' m = ROk m.
Proof. exact resolved_is_fixpoint. Qed.
Print Assumptions C33_resolved_is_fixpoint.

(* ---- failure: a rejection means some reachable reference is unknown or malformed, and such a
        tree is never expanded *)
Theorem C33_unknown_fails : forall reg n,
  (forall f, resolve reg f n = RReject -> Stuck reg n) /\
  (Stuck reg n -> forall f m, resolve reg f n <> ROk m).
Proof.
  intros reg n. split.
  - intros f H. exact (resolve_reject reg f n H).
  - intros HS f m. exact (Stuck_never_ok reg n f m HS).
Qed.
Print Assumptions C33_unknown_fails.

(* ---- an answer other than RFuel does not depend on the budget *)
Theorem C33_fuel_irrelevant : forall reg f f' n,
  resolve reg f n <> RFuel -> f <= f' -> resolve reg f' n = resolve reg f n.
Proof. exact resolve_fuel_mono. Qed.
Print Assumptions C33_fuel_irrelevant.

(* ---- acyclic reference graphs (a rank decreasing along references between registered
        constants): the budget never runs out, so the answer is the expansion, or RReject exactly
        for the stuck trees *)
Theorem C33_acyclic_terminates : forall reg rank n,
  ranked reg rank -> resolve reg (S (max_rank rank reg)) n <> RFuel.
Proof. exact resolve_acyclic. Qed.
Print Assumptions C33_acyclic_terminates.

Theorem C33_acyclic_reject_iff_stuck : forall reg rank n,
  ranked reg rank -> (resolve reg (S (max_rank rank reg)) n = RReject <-> Stuck reg n).
Proof. exact resolve_acyclic_reject_iff. Qed.
Print Assumptions C33_acyclic_reject_iff_stuck.

(* ---- registries filled in dependency order (the protocol's rule: only constants registered before
        may be mentioned, hashes are fresh) are acyclic, and the budget resolve_top runs with
        (one unit per registered entry) is then enough *)
Theorem C33_dependency_order_acyclic : forall reg,
  ordered reg -> ranked reg (fun h => pos_rank h reg) /\ forall n, resolve_top reg n <> RFuel.
Proof.
  intros reg HO. split; [exact (ordered_ranked reg HO)|intro n; exact (resolve_top_ordered reg n HO)].
Qed.
Print Assumptions C33_dependency_order_acyclic.

(* ---- registration binds an expression under the hash of its binary encoding (the C05 encoder),
        leaves other hashes alone, and in every registry produced by a history of register / resolve
        / reset calls each hash is bound to an expression with that hash *)
Theorem C33_register_lookup : forall hash reg e,
  lookup (key_of hash e) (register hash reg e) = Some e /\
  (forall h, h <> key_of hash e -> lookup h (register hash reg e) = lookup h reg).
Proof.
  intros hash reg e. split;
    [apply lookup_register_same|intros h Hne; apply lookup_register_other, Hne].
Qed.
Print Assumptions C33_register_lookup.

Theorem C33_history_keyed : forall hash ops h e,
  lookup h (final hash [] ops) = Some e -> h = hash (enc e).
Proof. intros hash ops. exact (keyed_final hash ops [] (keyed_nil hash)). Qed.
Print Assumptions C33_history_keyed.

(* ---- after reset nothing is registered: exactly the reference-free trees still resolve *)
Theorem C33_empty_registry : forall f n,
  resolve [] f n = if no_constant n then ROk n else RReject.
Proof. exact resolve_empty. Qed.
Print Assumptions C33_empty_registry.

(* ---- non-vacuity *)
Definition k1 : bytes := [x61].
Definition k2 : bytes := [x62].
Definition ex_reg : registry :=
  [(k2, NSeq [NPrim T_constant [NStr k1] []; NSeq [NSeq [NPrim T_constant [NStr k1] [[x25]]]]]);
   (k1, NPrim x07 [NInt 1; NInt 2] [])].
Definition ex_rank (h : bytes) : nat := if bytes_eqb h k2 then 1 else 0.

Example C33_example_ranked : ranked ex_reg ex_rank.
Proof.
  intros h e L h' Hin Hreg. unfold ex_reg in L. cbn [lookup] in L.
  destruct (bytes_eqb k2 h) eqn:E2.
  - injection L as <-. apply bytes_eqb_spec in E2. subst h.
    cbn in Hin. destruct Hin as [<-|[<-|[]]]; vm_compute; auto.
  - destruct (bytes_eqb k1 h) eqn:E1; [|discriminate]. injection L as <-. destruct Hin.
Qed.

Example C33_example_ordered : ordered ex_reg.
Proof.
  cbn. repeat split; try exact I; intros h Hin; cbn in Hin;
    repeat (destruct Hin as [<-|Hin]; [vm_compute; discriminate|]); destruct Hin.
Qed.

Example C33_example_resolve :
  resolve_top ex_reg (NPrim x02 [NPrim T_constant [NStr k2] []; NStr k1] [[x40]])
  = ROk (NPrim x02 [NSeq [NPrim x07 [NInt 1; NInt 2] []; NSeq [NSeq [NPrim x07 [NInt 1; NInt 2] []]]]; NStr k1] [[x40]])
  /\ resolve_top ex_reg (NSeq [NSeq [NPrim T_constant [NStr [x63]] []]]) = RReject
  /\ resolve_top [(k1, NPrim T_constant [NStr k1] [])] (NPrim T_constant [NStr k1] []) = RFuel.
Proof. repeat split; vm_compute; reflexivity. Qed.
