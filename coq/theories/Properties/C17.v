(* C17 — type annotations do not change execution or serialization.
   Model: Michelson/Comb.v — pytezos values carry their annotated type ([aval = gval ann]); the comb
   operations of PairType and the instructions GET n / UPDATE n / PAIR n / UNPAIR n / PAIR / UNPAIR / CAR / CDR /
   COMPARE / PACK / DUP / SWAP / DROP / PUSH are defined once, polymorphically in the annotation type.
   [erase = gmap (fun _ => tt)] forgets every field and type annotation (also inside the types stored in
   None / Left / Right); [gmap f] is an arbitrary re-annotation.  Each theorem says: re-annotate, then
   operate  =  operate, then re-annotate — so two inputs that are equal up to annotations give results that
   are equal up to annotations, the same failures, and the same packed Micheline. *)
From Coq Require Import List ZArith Bool.
From Coq.Strings Require Import Byte.
From PV Require Import Base.Bytes Base.Result Codec.Micheline Michelson.Comb Proofs.Comb_proofs.
Import ListNotations.

(* GET n *)
Theorem C17_get_n_blind : forall {A B} (f : A -> B) n v,
  access_comb n (gmap f v) = option_map (gmap f) (access_comb n v).
Proof. intros A B f. exact (access_comb_gmap f). Qed.
Print Assumptions C17_get_n_blind.

(* UPDATE n (d = annotation of the freshly built comb nodes) *)
Theorem C17_update_n_blind : forall {A B} (f : A -> B) d n e v,
  update_comb (f d) n (gmap f e) (gmap f v) = option_map (gmap f) (update_comb d n e v).
Proof. intros A B f d. exact (update_comb_gmap f d). Qed.
Print Assumptions C17_update_n_blind.

(* UNPAIR n and PAIR n *)
Theorem C17_unpair_pair_n_blind : forall {A B} (f : A -> B) d,
  (forall v c, unpairn c (gmap f v) = map (gmap f) (unpairn c v)) /\
  (forall l, from_comb (f d) (map (gmap f) l) = option_map (gmap f) (from_comb d l)).
Proof. intros A B f d. split; [exact (unpairn_gmap f) | exact (from_comb_gmap f d)]. Qed.
Print Assumptions C17_unpair_pair_n_blind.

(* COMPARE: the result does not depend on annotations at all *)
Theorem C17_compare_blind : forall {A B} (f : A -> B) a b,
  vcmp (gmap f a) (gmap f b) = vcmp a b /\
  compare_checked (gmap f a) (gmap f b) = compare_checked a b.     (* including the operand type check *)
Proof. intros A B f a b. split; [exact (vcmp_gmap f a b) | exact (compare_checked_gmap f a b)]. Qed.
Print Assumptions C17_compare_blind.

(* serialization: the Micheline value in every mode (readable / optimized = PACK / legacy) is
   independent of the annotations … *)
Theorem C17_micheline_blind : forall {A B} (f : A -> B) m v, to_mich m (gmap f v) = to_mich m v.
Proof. intros A B f. exact (to_mich_gmap f). Qed.
Print Assumptions C17_micheline_blind.

(* … and in optimized mode a pair is rendered from ALL leaves of its right spine, whatever is annotated:
   two leaves: Pair a b; three: Pair a (Pair b c); four and more: a sequence *)
Theorem C17_pack_shape : forall {A} (a : A) (x y : gval A),
  to_mich Optimized (GPair a x y) = comb_node Optimized (map (to_mich Optimized) (leaves_of (GPair a x y))) /\
  forall p q r e l,
    comb_node Optimized [p; q] = NPrim P_Pair [p; q] [] /\
    comb_node Optimized [p; q; r] = NPrim P_Pair [p; NPrim P_Pair [q; r] []] [] /\
    comb_node Optimized (p :: q :: r :: e :: l) = NSeq (p :: q :: r :: e :: l).
Proof. intros. split; [apply pack_shape | intros; apply comb_node_cases]. Qed.
Print Assumptions C17_pack_shape.

(* reading a literal at an annotated type (PUSH ty lit, UNPACK ty): the value read at the re-annotated type is the
   re-annotated value, and it is rejected at one iff at the other *)
Theorem C17_read_literal_blind : forall {A B} (f : A -> B) t n,
  read (tmap f t) n = option_map (gmap f) (read t n).
Proof. intros A B f. exact (read_gmap f). Qed.
Print Assumptions C17_read_literal_blind.

(* Programs over the comb fragment: executing the re-annotated program on the re-annotated stack gives the
   re-annotated result and fails exactly when the original fails.
   PARTIAL with respect to the property text ("all programs over the core instruction set"): the instruction
   set here is PUSH ty lit, UNPACK ty, GET n, UPDATE n, PAIR n, UNPAIR n, CAR, CDR, PAIR, UNPAIR, COMPARE, EQ, PACK,
   DUP, SWAP, DROP, SOME, NONE ty, LEFT ty, RIGHT ty, UNIT, sequencing, IF, IF_NONE, IF_LEFT, DIP n (type arguments
   enter through PUSH, UNPACK, NONE, LEFT, RIGHT) over int/nat/mutez/string/bytes/bool/unit/pair/option/or values;
   loops, collections, arithmetic, lambdas and domain types are not in this model. *)
Theorem C17_exec_annotation_blind_partial : forall {A B} (f : A -> B) d p s,
  exec (f d) (map (imap f) p) (map (gmap f) s) = rmap (map (gmap f)) (exec d p s).
Proof. intros A B f d. exact (exec_gmap f d). Qed.
Print Assumptions C17_exec_annotation_blind_partial.

(* twins: two programs / stacks equal up to annotations (the same erasure) have the same erased result,
   the same failure, and (GPacked carries the Micheline) the same packed bytes *)
Theorem C17_twins_partial : forall p p' s s',
  map (imap er) p = map (imap er) p' -> map erase s = map erase s' ->
  rmap (map erase) (exec no_ann p s) = rmap (map erase) (exec no_ann p' s').
Proof. exact exec_twins. Qed.
Print Assumptions C17_twins_partial.

(* non-vacuity: GET 3 on the annotated comb of defect #10, and its erased twin *)
Definition ex_a (s : bytes) : ann := mk_ann (Some s) None.
Definition ex_comb : aval :=
  GPair no_ann (GInt (ex_a [x61]) T_int 1)
    (GPair (ex_a [x62]) (GInt (ex_a [x63]) T_int 2)
       (GPair (ex_a [x64]) (GInt (ex_a [x65]) T_int 3) (GInt (ex_a [x66]) T_int 4))).
Example C17_ex_get3 :
  run_prog [IPush ex_comb; IGet 3] = Ok [GInt (ex_a [x63]) T_int 2] /\
  exec tt [IPush (erase ex_comb); IGet 3] [] = Ok [GInt tt T_int 2] /\
  to_mich Optimized ex_comb = NSeq [NInt 1; NInt 2; NInt 3; NInt 4].
Proof. repeat split. Qed.

(* the same value read from its literal at the annotated type, through a conditional and a DIP *)
Definition ex_ty : aty :=
  TyPair no_ann (TyPrim (ex_a [x61]) T_int)
    (TyPair (ex_a [x62]) (TyPrim (ex_a [x63]) T_int)
       (TyPair (ex_a [x64]) (TyPrim (ex_a [x65]) T_int) (TyPrim (ex_a [x66]) T_int))).
Example C17_ex_read :
  read ex_ty (NPrim P_Pair [NInt 1; NInt 2; NInt 3; NInt 4] []) = Some ex_comb /\
  run_prog [IPushT ex_ty (NSeq [NInt 1; NInt 2; NInt 3; NInt 4]); ISome;
            IIfNone IUnit (ISeq IDup (IDip 1 (IGet 6)))] = Ok [ex_comb; GInt (ex_a [x66]) T_int 4].
Proof. split; reflexivity. Qed.
