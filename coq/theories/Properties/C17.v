(* C17 — type annotations do not change execution or serialization.
   Model: Michelson/Comb.v — pytezos values carry their annotated type ([aval = gval ann]); the comb
   operations of PairType and the instructions GET n / UPDATE n / PAIR n / UNPAIR n / PAIR / UNPAIR / CAR / CDR /
   COMPARE / PACK / DUP / SWAP / DROP / PUSH are defined once, polymorphically in the annotation type.
   [erase = gmap (fun _ => tt)] forgets every field and type annotation (also inside the types stored in
   None / Left / Right); [gmap f] is an arbitrary re-annotation.  Each theorem says: re-annotate, then
   operate  =  operate, then re-annotate — so two inputs that are equal up to annotations give results that
   are equal up to annotations, the same failures, and the same packed Micheline. *)
From Coq Require Import List ZArith Bool.
From Coq.Strings Require Import Byte.
From PV Require Import Base.Bytes Base.Result Codec.Micheline Michelson.Comb Proofs.Comb_proofs.
Import ListNotations.

(* GET n *)
Theorem C17_get_n_blind : forall {A B} (f : A -> B) n v,
  access_comb n (gmap f v) = option_map (gmap f) (access_comb n v).
Proof. intros A B f. exact (access_comb_gmap f). Qed.
Print Assumptions C17_get_n_blind.

(* UPDATE n (d = annotation of the freshly built comb nodes) *)
Theorem C17_update_n_blind : forall {A B} (f : A -> B) d n e v,
  update_comb (f d) n (gmap f e) (gmap f v) = option_map (gmap f) (update_comb d n e v).
Proof. intros A B f d. exact (update_comb_gmap f d). Qed.
Print Assumptions C17_update_n_blind.

(* UNPAIR n and PAIR n *)
Theorem C17_unpair_pair_n_blind : forall {A B} (f : A -> B) d,
  (forall v c, unpairn c (gmap f v) = map (gmap f) (unpairn c v)) /\
  (forall l, from_comb (f d) (map (gmap f) l) = option_map (gmap f) (from_comb d l)).
Proof. intros A B f d. split; [exact (unpairn_gmap f) | exact (from_comb_gmap f d)]. Qed.
Print Assumptions C17_unpair_pair_n_blind.

(* COMPARE: the result does not depend on annotations at all *)
Theorem C17_compare_blind : forall {A B} (f : A -> B) a b,
  vcmp (gmap f a) (gmap f b) = vcmp a b /\
  compare_checked (gmap f a) (gmap f b) = compare_checked a b.     (* including the operand type check *)
Proof. intros A B f a b. split; [exact (vcmp_gmap f a b) | exact (compare_checked_gmap f a b)]. Qed.
Print Assumptions C17_compare_blind.

(* serialization: the Micheline value in every mode (readable / optimized = PACK / legacy) is
   independent of the annotations … *)
Theorem C17_micheline_blind : forall {A B} (f : A -> B) m v, to_mich m (gmap f v) = to_mich m v.
Proof. intros A B f. exact (to_mich_gmap f). Qed.
Print Assumptions C17_micheline_blind.

(* … and in optimized mode a pair is rendered from ALL leaves of its right spine, whatever is annotated:
   two leaves: Pair a b; three: Pair a (Pair b c); four and more: a sequence *)
Theorem C17_pack_shape : forall {A} (a : A) (x y : gval A),
  to_mich Optimized (GPair a x y) = comb_node Optimized (map (to_mich Optimized) (leaves_of (GPair a x y))) /\
  forall p q r e l,
    comb_node Optimized [p; q] = NPrim P_Pair [p; q] [] /\
    comb_node Optimized [p; q; r] = NPrim P_Pair [p; NPrim P_Pair [q; r] []] [] /\
    comb_node Optimized (p :: q :: r :: e :: l) = NSeq (p :: q :: r :: e :: l).
Proof. intros. split; [apply pack_shape | intros; apply comb_node_cases]. Qed.
Print Assumptions C17_pack_shape.

(* reading a literal at an annotated type (PUSH ty lit, UNPACK ty): the value read at the re-annotated type is the
   re-annotated value, and it is rejected at one iff at the other *)
Theorem C17_read_literal_blind : forall {A B} (f : A -> B) t n,
  read (tmap f t) n = option_map (gmap f) (read t n).
Proof. intros A B f. exact (read_gmap f). Qed.
Print Assumptions C17_read_literal_blind.

(* Programs.  The modelled language is the inductive type [cinstr] of Michelson/Comb.v, i.e. exactly:
     PUSH ty lit, UNPACK ty, GET n, UPDATE n, PAIR n, UNPAIR n, CAR, CDR, PAIR, UNPAIR, COMPARE, EQ/NEQ/LT/GT/LE/GE,
     ADD/SUB/MUL on int and nat, PACK, DUP, SWAP, DROP, SOME, NONE ty, LEFT ty, RIGHT ty, UNIT, NIL ty, CONS,
     sequencing, IF, IF_NONE, IF_LEFT, IF_CONS, DIP n, ITER and MAP over lists, LOOP, LAMBDA ty ty code, EXEC, APPLY
   over int/nat/mutez/string/bytes/bool/unit/pair/option/or/list/lambda values (type arguments enter through PUSH, UNPACK,
   NONE, LEFT, RIGHT, NIL, LAMBDA; MAP builds a fresh list class from the anonymous type of the first result — the place
   of defect #49; APPLY builds the new code PUSH (strip lt) lit ; PAIR ; body with every annotation of the captured
   type dropped and gives the lambda the anonymous remaining parameter type — the places of defects #52 and #51: the
   proof uses strip (f d) (tmap f t) = tmap f (strip d t) and anon (f d) (tmap f t) = tmap f (anon d t)).  [exec d n p s] runs the code list p with n units of fuel (consumed by LOOP iterations only) and
   returns Done stack / Fail / OutOfFuel.  For EVERY program of that language, every stack and every fuel: executing
   the re-annotated program on the re-annotated stack gives the re-annotated outcome — the same failure, the same
   fuel exhaustion (so a run that terminates with fuel n terminates with the same n after re-annotation).  Fuel is consumed by LOOP iterations and EXEC calls only.
   PARTIAL with respect to the property text ("all programs over the core instruction set"): sets, maps, big_maps,
   LOOP_LEFT, LAMBDA_REC, strings/bytes operations, mutez/timestamp arithmetic, domain types and
   operations are not in [cinstr]; they are covered by the twins-only stream of the harness, not by this theorem. *)
Theorem C17_exec_annotation_blind_partial : forall {A B} (f : A -> B) d n p s,
  exec (f d) n (map (imap f) p) (map (gmap f) s) = omap (map (gmap f)) (exec d n p s).
Proof. intros A B f d. exact (exec_gmap f d). Qed.
Print Assumptions C17_exec_annotation_blind_partial.

(* … in particular the fuel that suffices for a program suffices for every re-annotation of it *)
Theorem C17_same_fuel_partial : forall {A B} (f : A -> B) d n p s,
  exec d n p s <> OutOfFuel -> exec (f d) n (map (imap f) p) (map (gmap f) s) <> OutOfFuel.
Proof. intros A B f d n p s. exact (exec_same_fuel f d n p s). Qed.
Print Assumptions C17_same_fuel_partial.

(* twins: two programs / stacks equal up to annotations (the same erasure) have the same erased result,
   the same failure, and (GPacked carries the Micheline) the same packed bytes *)
Theorem C17_twins_partial : forall n p p' s s',
  map (imap er) p = map (imap er) p' -> map erase s = map erase s' ->
  omap (map erase) (exec no_ann n p s) = omap (map erase) (exec no_ann n p' s').
Proof. exact exec_twins. Qed.
Print Assumptions C17_twins_partial.

(* non-vacuity: GET 3 on the annotated comb of defect #10, and its erased twin *)
Definition ex_a (s : bytes) : ann := mk_ann (Some s) None.
Definition ex_comb : aval :=
  GPair no_ann (GInt (ex_a [x61]) T_int 1)
    (GPair (ex_a [x62]) (GInt (ex_a [x63]) T_int 2)
       (GPair (ex_a [x64]) (GInt (ex_a [x65]) T_int 3) (GInt (ex_a [x66]) T_int 4))).
Example C17_ex_get3 :
  run_prog [IPush ex_comb; IGet 3] = Done [GInt (ex_a [x63]) T_int 2] /\
  exec tt 1 [IPush (erase ex_comb); IGet 3] [] = Done [GInt tt T_int 2] /\
  to_mich Optimized ex_comb = NSeq [NInt 1; NInt 2; NInt 3; NInt 4].
Proof. repeat split. Qed.

(* the same value read from its literal at the annotated type, through a conditional and a DIP *)
Definition ex_ty : aty :=
  TyPair no_ann (TyPrim (ex_a [x61]) T_int)
    (TyPair (ex_a [x62]) (TyPrim (ex_a [x63]) T_int)
       (TyPair (ex_a [x64]) (TyPrim (ex_a [x65]) T_int) (TyPrim (ex_a [x66]) T_int))).
Example C17_ex_read :
  read ex_ty (NPrim P_Pair [NInt 1; NInt 2; NInt 3; NInt 4] []) = Some ex_comb /\
  run_prog [IPushT ex_ty (NSeq [NInt 1; NInt 2; NInt 3; NInt 4]); ISome;
            IIfNone IUnit (ISeq IDup (IDip 1 (IGet 6)))] = Done [ex_comb; GInt (ex_a [x66]) T_int 4].
Proof. split; reflexivity. Qed.

(* the witness of defect #49 in the model: MAP { CAR } over a list of annotated pairs builds a list whose item type
   is the ANONYMOUS type of the first result; a counting LOOP; fuel exhaustion is a distinguished outcome *)
Definition ex_pair_ty : aty := TyPair no_ann (TyPrim (ex_a [x61]) T_int) (TyPrim no_ann T_nat).
Example C17_ex_map_loop :
  run_prog [IPushT (TyList no_ann ex_pair_ty) (NSeq [NPrim P_Pair [NInt 1; NInt 2] []; NPrim P_Pair [NInt 3; NInt 4] []]);
            IMap ICar]
  = Done [GCons no_ann (TyPrim no_ann T_int) (GInt (ex_a [x61]) T_int 1)
            (GCons no_ann (TyPrim no_ann T_int) (GInt (ex_a [x61]) T_int 3) (GNil no_ann (TyPrim no_ann T_int)))] /\
  run_prog [IPushT (TyPrim no_ann T_int) (NInt 3); IDup; ICmpOp O_GT;
            ILoop (iseq [IPushT (TyPrim no_ann T_int) (NInt 1); ISwap; IArith O_SUB; IDup; ICmpOp O_GT])]
  = Done [GInt no_ann T_int 0] /\
  exec no_ann 2 [IPushT (TyPrim no_ann T_bool) (NPrim P_True [] []); ILoop (IPushT (TyPrim no_ann T_bool) (NPrim P_True [] []))] []
  = OutOfFuel.
Proof. repeat split; vm_compute; reflexivity. Qed.

(* APPLY on a lambda whose parameter pair is annotated: the captured type is pushed stripped, the remaining parameter
   type is anonymous; then EXEC *)
Example C17_ex_apply :
  run_prog [ILambda ex_pair_ty (TyPrim no_ann T_int) ICar; IPushT (TyPrim (ex_a [x7a]) T_int) (NInt 5); IApply]
  = Done [GLam no_ann (TyPrim no_ann T_nat) (TyPrim no_ann T_int)
            (ISeq (IPushT (TyPrim no_ann T_int) (NInt 5)) (ISeq IPair ICar))] /\
  run_prog [ILambda ex_pair_ty (TyPrim no_ann T_int) ICar; IPushT (TyPrim no_ann T_int) (NInt 5); IApply;
            IPushT (TyPrim no_ann T_nat) (NInt 1); IExec] = Done [GInt no_ann T_int 5].
Proof. split; vm_compute; reflexivity. Qed.
