(* C05 — Micheline binary encoding round-trips and decodes strictly.
   Model: Codec/MichelineBin.v ([enc] ~ forge_micheline, [dec_full] ~ unforge_micheline), integers
   from Codec/Zarith.v, primitive table Codec/Prims.v (compared with /repo's tags.py on every run).

   A Micheline tree is a [node]; the JSON <-> node map of the harness (integers as numbers,
   missing args/annots = empty lists, prim name -> binary tag) is what "normalised" means in
   the property text: two JSON expressions have the same [node] iff they are equal after
   normalising integer spelling and empty args/annots.

   [wf_node n]: every primitive of [n] is a protocol primitive (tag 00..9e), strings and
   annotations are valid UTF-8, annotations contain no space and are not the single empty
   annotation, every length fits four bytes.  No bound on size, depth or integer magnitude.

   [dec_full] returns [DOk n], [DReject], or [DFuel] (internal fuel exhausted);
   C05_fuel_suffices shows the last never happens, so "rejected" below is a real rejection.
   [MichEnc n bs] is the relational grammar of the binary format (what pytezos accepts);
   [TezosEnc] the same grammar without the UTF-8 restriction (what Tezos accepts). *)
From Coq Require Import List ZArith NArith Bool.
From Coq.Strings Require Import Byte.
From PV Require Import Base.Bytes Codec.Micheline Codec.Zarith Codec.Prims Codec.MichelineBin.
From PV Require Import Proofs.Zarith_proofs Proofs.MichelineBin_proofs.
Import ListNotations.

(* ---- round trip: decode inverts encode on every well-formed tree *)
Theorem C05_decode_encode : forall n, wf_node n -> dec_full (enc n) = DOk n.
Proof. exact (dec_enc known_prim utf8_valid utf8_valid_nil). Qed.
Print Assumptions C05_decode_encode.

(* ---- different (normalised) expressions encode differently *)
Theorem C05_encode_injective : forall a b, wf_node a -> wf_node b -> enc a = enc b -> a = b.
Proof. exact (enc_injective known_prim utf8_valid utf8_valid_nil). Qed.
Print Assumptions C05_encode_injective.

(* ---- the decoder never runs out of its internal fuel: every outcome is DOk or DReject *)
Theorem C05_fuel_suffices : forall bs, dec_full bs <> DFuel.
Proof. exact (dec_full_fuel_ok known_prim utf8_valid). Qed.
Print Assumptions C05_fuel_suffices.

(* ---- [pdec_full] transcribes unforge_micheline's control flow literally (one buffer, an index,
        "ptr == end" checked after each sequence); it computes the same function as the sub-buffer
        decoder [dec_full] about which the other theorems speak *)
Theorem C05_index_decoder_equiv : forall bs, pdec_full bs = dec_full bs.
Proof. exact pdec_full_eq_py. Qed.
Print Assumptions C05_index_decoder_equiv.

(* ---- the decoder accepts exactly the relational grammar, and returns the tree it denotes *)
Theorem C05_dec_iff_grammar : forall bs n, dec_full bs = DOk n <-> MichEnc n bs.
Proof. exact (dec_full_iff known_prim utf8_valid). Qed.
Print Assumptions C05_dec_iff_grammar.

Theorem C05_reject_iff_not_grammar : forall bs, dec_full bs = DReject <-> ~ exists n, MichEnc n bs.
Proof. exact (dec_full_reject_iff known_prim utf8_valid). Qed.
Print Assumptions C05_reject_iff_not_grammar.

(* ---- the encoder produces a sentence of the grammar; a byte string denotes at most one tree *)
Theorem C05_encode_in_grammar : forall n, wf_node n -> MichEnc n (enc n).
Proof. exact (enc_Enc known_prim utf8_valid utf8_valid_nil). Qed.
Print Assumptions C05_encode_in_grammar.

Theorem C05_grammar_functional : forall n n' bs, MichEnc n bs -> MichEnc n' bs -> n = n'.
Proof. exact (Enc_functional known_prim utf8_valid). Qed.
Print Assumptions C05_grammar_functional.

(* ---- whatever Tezos rejects, pytezos rejects (Tezos' grammar = the same grammar with arbitrary
        bytes as text); where Tezos accepts, pytezos either returns the same tree or rejects
        (the latter only for text that is not UTF-8) *)
Theorem C05_rejects_what_tezos_rejects : forall bs, dec_full_tezos bs = DReject -> dec_full bs = DReject.
Proof. exact rejects_what_tezos_rejects. Qed.
Print Assumptions C05_rejects_what_tezos_rejects.

Theorem C05_agrees_with_tezos_or_rejects :
  forall bs n, dec_full_tezos bs = DOk n -> dec_full bs = DReject \/ dec_full bs = DOk n.
Proof. exact accepted_by_tezos_only. Qed.
Print Assumptions C05_agrees_with_tezos_or_rejects.

Theorem C05_tezos_dec_iff_grammar : forall bs n, dec_full_tezos bs = DOk n <-> TezosEnc n bs.
Proof. exact (dec_full_iff known_prim any_text). Qed.
Print Assumptions C05_tezos_dec_iff_grammar.

(* ---- prefix-freeness: no valid encoding is a strict prefix of another one ... *)
Theorem C05_prefix_free : forall n n' e x, MichEnc n e -> MichEnc n' (e ++ x) -> x = [] /\ n = n'.
Proof. exact (Enc_prefix_free known_prim utf8_valid). Qed.
Print Assumptions C05_prefix_free.

(* ... so every strict prefix (truncation) of a valid encoding is rejected ... *)
Theorem C05_truncation_rejected :
  forall n bs p x, MichEnc n bs -> bs = p ++ x -> x <> [] -> dec_full p = DReject.
Proof. exact (truncation_rejected known_prim utf8_valid). Qed.
Print Assumptions C05_truncation_rejected.

(* ... and so is every proper extension (trailing bytes) *)
Theorem C05_trailing_rejected :
  forall n bs x, MichEnc n bs -> x <> [] -> dec_full (bs ++ x) = DReject.
Proof. exact (trailing_rejected known_prim utf8_valid). Qed.
Print Assumptions C05_trailing_rejected.

(* ---- unknown tags: a node tag above 0a; a primitive tag outside the protocol table
        (at the head, and — through decoded_prims_known — at any depth) *)
Theorem C05_unknown_tag_rejected :
  forall tag r, (10 < Byte.to_N tag)%N -> dec_full (tag :: r) = DReject.
Proof. exact (unknown_tag_rejected known_prim utf8_valid). Qed.
Print Assumptions C05_unknown_tag_rejected.

Theorem C05_unknown_prim_rejected :
  forall tag t r, (3 <= Byte.to_N tag <= 9)%N -> (158 < Byte.to_N t)%N ->
                  dec_full (tag :: t :: r) = DReject.
Proof. exact unknown_prim_rejected_py. Qed.
Print Assumptions C05_unknown_prim_rejected.

Theorem C05_decoded_prims_known :
  forall bs n t, dec_full bs = DOk n -> In t (node_tags n) -> (Byte.to_N t <= 158)%N.
Proof. exact decoded_prims_known_py. Qed.
Print Assumptions C05_decoded_prims_known.

(* ---- non-minimal integers: continuation bits all the way and a final 00 byte *)
Theorem C05_nonminimal_int_rejected :
  forall b0 mid, cont b0 = true -> Forall (fun b => cont b = true) mid ->
                 dec_full (x00 :: b0 :: mid ++ [x00]) = DReject.
Proof. exact (nonminimal_int_rejected known_prim utf8_valid). Qed.
Print Assumptions C05_nonminimal_int_rejected.

(* the only integer encodings accepted: the canonical one, and "-0" = 40 (as Tezos) *)
Theorem C05_int_encodings :
  forall e n, dec_full (x00 :: e) = DOk n ->
              exists z, n = NInt z /\ (e = enc_int z \/ (z = 0%Z /\ e = [x40])).
Proof. exact int_encodings_py. Qed.
Print Assumptions C05_int_encodings.

(* ---- length fields: a string/sequence/bytes length running past the end of the buffer ... *)
Theorem C05_bad_length_rejected :
  forall tag l4 r, tag = x01 \/ tag = x02 \/ tag = x0a -> length l4 = 4 ->
                   (N.of_nat (length r) < be_to_N l4)%N -> dec_full (tag :: l4 ++ r) = DReject.
Proof. exact (length_overrun_rejected known_prim utf8_valid). Qed.
Print Assumptions C05_bad_length_rejected.

(* ... and a sequence is accepted only if its length field covers exactly the remaining bytes
   and these are a concatenation of complete element encodings (element boundary) *)
Theorem C05_seq_length_exact :
  forall l4 body n, length l4 = 4 -> dec_full (x02 :: l4 ++ body) = DOk n ->
    be_to_N l4 = N.of_nat (length body) /\ exists items, n = NSeq items /\ MichEncList items body.
Proof. exact (seq_length_exact known_prim utf8_valid). Qed.
Print Assumptions C05_seq_length_exact.

(* ---- the zarith layer on its own *)
Theorem C05_zarith_roundtrip :
  (forall z r, dec_int (enc_int z ++ r) = Some (z, r)) /\
  (forall n r, dec_nat (enc_nat n ++ r) = Some (n, r)).
Proof. split; [exact dec_enc_int|exact dec_enc_nat]. Qed.
Print Assumptions C05_zarith_roundtrip.

Theorem C05_zarith_canonical :
  (forall bs z r, dec_int bs = Some (z, r) -> bs = enc_int z ++ r \/ (z = 0%Z /\ bs = x40 :: r)) /\
  (forall bs n r, dec_nat bs = Some (n, r) -> bs = enc_nat n ++ r).
Proof. split; [exact enc_dec_int|exact enc_dec_nat]. Qed.
Print Assumptions C05_zarith_canonical.

(* ---- non-vacuity *)
From Coq Require Import String.
Local Open Scope string_scope.
Definition ex_tree : node :=
  NSeq [NPrim x07 [NInt 5; NStr (hx "6869")] [hx "2561"; hx "3a62"];
        NPrim x43 [NInt (-64); NByt (hx "00ff"); NSeq []] [];
        NPrim x03 [] []].

Example C05_example_wf : wf_node ex_tree.
Proof. vm_compute. reflexivity. Qed.

Example C05_example_roundtrip :
  enc ex_tree = hx "020000002f0807000501000000026869000000052561203a6209430000000f00c0010a0000000200ff0200000000000000000303"
  /\ dec_full (enc ex_tree) = DOk ex_tree.
Proof. split; vm_compute; reflexivity. Qed.

Example C05_example_grammar : exists n, MichEnc n (hx "0040").   (* "-0" *)
Proof. exists (NInt 0). apply C05_dec_iff_grammar. vm_compute. reflexivity. Qed.

Example C05_example_rejects :
  dec_full (hx "008000") = DReject /\ dec_full (hx "03ee") = DReject /\ dec_full (hx "039f") = DReject
  /\ dec_full (hx "0b") = DReject /\ dec_full (hx "0100000002ff") = DReject
  /\ dec_full (hx "02000000010000") = DReject /\ dec_full (hx "0100000001ff") = DReject
  /\ dec_full_tezos (hx "0100000001ff") = DOk (NStr [xff]).
Proof. repeat split; vm_compute; reflexivity. Qed.

Example C05_example_nonminimal : cont x80 = true /\ Forall (fun b => cont b = true) [x80; xff].
Proof. split; [reflexivity|repeat constructor]. Qed.
