(* C12 — Python-object conversion of contract data round-trips.
   Model: Michelson/PyObj.v ([to_py] = value.to_python_object(lazy_diff=None) = ContractData.decode after
   from_micheline_value; [from_py] = Type.from_python_object = ContractData.encode before to_micheline_value;
   [layout_names]/[all_names] = get_type_layout; flattening of nested pairs / unions; enum unions; option; list,
   set, map, big_map literals and ids; scalars nat,int,string,bytes,bool,unit).

   Theorems quantify over ALL annotated types [t : aty] (no depth bound) accepted by pytezos ([valid_ty]: keys of
   sets/maps/big_maps comparable) and ALL well-typed values ([has_type]: what from_micheline_value can produce —
   naturals non-negative, strings ASCII, sets/maps strictly sorted without duplicates).

   Known findings (the code violates the property there; mirrored by the model, refuted below, excluded from the
   *_partial theorems):
     nested-option            [has_some_none v = true]   the value contains Some None           (defect #14)
     generated-name-collision [names_ok CNone t = false] some pair/union layout inside t has a key twice, i.e. an
                                                          explicit annotation equals a generated <prim>_<i> name (#30) *)
From Coq Require Import List ZArith Bool String.
From Coq.Strings Require Import Byte.
From PV Require Import Base.Bytes Base.Result Michelson.PyObj Proofs.PyObj_proofs.
Import ListNotations.

(* Full statement: forall t v, valid_ty t -> has_type t v -> from_py t (to_py t v) = Ok v.
   Proved outside the two finding classes. *)
Theorem C12_roundtrip_partial : forall t v,
  valid_ty t = true -> has_type t v ->
  has_some_none v = false -> names_ok CNone t = true ->
  exists o, to_py t v = Ok o /\ from_py t o = Ok v.
Proof. exact roundtrip. Qed.
Print Assumptions C12_roundtrip_partial.

(* the same for the "comparable" rendering used for set elements and map keys (pairs as tuples, unions as
   (name, value) tuples) *)
Theorem C12_roundtrip_comparable_partial : forall cmp t v,
  valid_ty t = true -> (cmp = true -> comparable t = true) -> has_type t v ->
  has_some_none v = false -> names_ok CNone t = true ->
  exists o, to_py_cmp cmp t v = Ok o /\ from_py t o = Ok v.
Proof. exact roundtrip_cmp. Qed.
Print Assumptions C12_roundtrip_comparable_partial.

(* ContractData: decode (encode o) = o for every object o that decode can produce (with the previous theorem:
   encode and decode are mutually inverse between well-typed values and their objects) *)
Theorem C12_encode_decode_inverse_partial : forall t v o,
  valid_ty t = true -> has_type t v -> has_some_none v = false -> names_ok CNone t = true ->
  to_py t v = Ok o ->
  exists v', from_py t o = Ok v' /\ to_py t v' = Ok o.
Proof. exact encode_decode. Qed.
Print Assumptions C12_encode_decode_inverse_partial.

(* distinct values never share a Python object *)
Theorem C12_to_py_injective_partial : forall t v1 v2 o,
  valid_ty t = true -> names_ok CNone t = true ->
  has_type t v1 -> has_some_none v1 = false -> has_type t v2 -> has_some_none v2 = false ->
  to_py t v1 = Ok o -> to_py t v2 = Ok o -> v1 = v2.
Proof. exact to_py_injective. Qed.
Print Assumptions C12_to_py_injective_partial.

(* field names are stable: the keys of a converted record are exactly the layout keys of its type, in layout order,
   whatever the value; and they are pairwise distinct (outside the collision class) *)
Theorem C12_layout_stable_partial : forall fn tn a b v o ns,
  valid_ty (TPair fn tn a b) = true -> has_type (TPair fn tn a b) v -> has_some_none v = false ->
  names_ok CNone (TPair fn tn a b) = true ->
  layout_names false (map snd (pair_leaves a b)) = Some ns ->
  to_py (TPair fn tn a b) v = Ok o ->
  exists items, o = PDict (combine (map PStr ns) items) /\ List.length items = List.length ns /\ NoDup ns.
Proof. exact pair_keys. Qed.
Print Assumptions C12_layout_stable_partial.

(* layout keys are unique unless an explicit annotation equals a generated <prim>_<index> name *)
Theorem C12_layout_keys_unique_partial : forall args,
  (forall i j t k, nth_error args i = Some t -> explicit_key t = Some k ->
                   forall t', nth_error args j = Some t' -> k <> gen_name t' j) ->
  NoDup (all_names args).
Proof. exact all_names_nodup. Qed.
Print Assumptions C12_layout_keys_unique_partial.

(* ---- refutations inside the finding classes (kernel-checked computations on the model; the harness replays the
        same inputs on the real code) ---- *)
(* option (option nat), Some None  ->  None  ->  None *)
Theorem C12_roundtrip_refuted_nested_option :
  valid_ty kf14_type = true /\ has_type kf14_type kf14_value /\ names_ok CNone kf14_type = true /\
  has_some_none kf14_value = true /\
  to_py kf14_type kf14_value = Ok PNone /\ from_py kf14_type PNone = Ok VNone.
Proof. exact kf14_refuted. Qed.
Print Assumptions C12_roundtrip_refuted_nested_option.

(* pair (nat %nat_1) nat, Pair 1 2  ->  {'nat_1': 2}  ->  "Missing nat_1 field"; the two keys coincide *)
Theorem C12_roundtrip_refuted_name_collision_pair :
  valid_ty kf30_pair = true /\ has_type kf30_pair (VPair (VInt 1) (VInt 2)) /\
  has_some_none (VPair (VInt 1) (VInt 2)) = false /\ names_ok CNone kf30_pair = false /\
  all_names (map snd (pair_leaves (TScalar (Some nat_1) None KNat) (TScalar None None KNat))) = [nat_1; nat_1] /\
  to_py kf30_pair (VPair (VInt 1) (VInt 2)) = Ok (PDict [(PStr nat_1, PInt 2)]) /\
  from_py kf30_pair (PDict [(PStr nat_1, PInt 2)]) = Reject.
Proof. exact kf30_pair_refuted. Qed.
Print Assumptions C12_roundtrip_refuted_name_collision_pair.

(* or (nat %nat_1) nat, Left 5  ->  {'nat_1': 5}  ->  Right 5 *)
Theorem C12_roundtrip_refuted_name_collision_or :
  valid_ty kf30_or = true /\ has_type kf30_or (VLeft (VInt 5)) /\ names_ok CNone kf30_or = false /\
  to_py kf30_or (VLeft (VInt 5)) = Ok (PDict [(PStr nat_1, PInt 5)]) /\
  from_py kf30_or (PDict [(PStr nat_1, PInt 5)]) = Ok (VRight (VInt 5)).
Proof. exact kf30_or_refuted. Qed.
Print Assumptions C12_roundtrip_refuted_name_collision_or.

(* ---- non-vacuity: map (pair (nat %a) (or string bytes)) (pair (nat %x) (pair int (option unit))) ---- *)
Definition ex_key : aty :=
  TPair None None (TScalar (Some [x61]) None KNat) (TOr None None (TScalar None None KString) (TScalar None None KBytes)).
Definition ex_val : aty :=
  TPair None None (TScalar (Some [x78]) None KNat)
        (TPair None None (TScalar None None KInt) (TOption None None (TScalar None None KUnit))).
Definition ex_type : aty := TMap None None ex_key ex_val.
Definition ex_value : mval :=
  VMap [(VPair (VInt 1) (VLeft (VStr [x73])), VPair (VInt 1) (VPair (VInt (-2)) (VSome VUnit)));
        (VPair (VInt 2) (VRight (VBytes [x00])), VPair (VInt 3) (VPair (VInt 4) VNone))].

Example C12_example_hyps :
  valid_ty ex_type = true /\ names_ok CNone ex_type = true /\ has_some_none ex_value = false /\
  sorted_by fst (match ex_value with VMap l => l | _ => [] end) = true.
Proof. vm_compute. repeat split; reflexivity. Qed.

Example C12_example_to_py :
  to_py ex_type ex_value =
  Ok (PDict [(PTuple [PInt 1; PTuple [PStr (tx "string_0"%string); PStr [x73]]],
              PDict [(PStr [x78], PInt 1); (PStr (tx "int_1"%string), PInt (-2)); (PStr (tx "option_2"%string), PUnit)]);
             (PTuple [PInt 2; PTuple [PStr (tx "bytes_1"%string); PBytes [x00]]],
              PDict [(PStr [x78], PInt 3); (PStr (tx "int_1"%string), PInt 4); (PStr (tx "option_2"%string), PNone)])]).
Proof. vm_compute. reflexivity. Qed.
