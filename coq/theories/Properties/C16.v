(* C16 — Arithmetic and numeric conversions are exact.
   Model: Michelson/Arith.v.  [exec o st] is the instruction as pytezos computes it (Python int
   primitives: floor divmod + sign repair, bit_length, to_bytes/from_bytes, shifts, bitwise ops,
   the from_value checks of nat and mutez); [Ref o st r] is the reference result over Z
   (Euclidean division, a*2^s, a/2^s, -a-1, positional two's-complement value, shortest encoding,
   mutez range [0, 2^63)).  All theorems quantify over all integers / all byte strings. *)
From Coq Require Import List ZArith Bool.
From Coq.Strings Require Import Byte.
From PV Require Import Base.Bytes Base.Result Michelson.Arith Proofs.Arith_proofs.
Import ListNotations.
Local Open Scope Z_scope.

(* every overload of the Michelson reference, on all well-formed operands (nat >= 0,
   0 <= mutez < 2^63), computes exactly the reference result — including the run-time failures
   (Reject) and the None results *)
Theorem C16_every_overload_exact : forall o st r,
  forallb wf_val st = true -> Ref o st r -> exec o st = r.
Proof. exact exec_exact. Qed.
Print Assumptions C16_every_overload_exact.

(* the reference relation is satisfiable wherever it is specified (so the theorem above is not vacuous) *)
Theorem C16_reference_total : forall o st,
  forallb wf_val st = true -> specified o st = true -> exists r, Ref o st r.
Proof. exact Ref_total. Qed.
Print Assumptions C16_reference_total.

(* operand lists that are no overload of the reference are rejected, except four lenient
   acceptances (AND nat int; INT mutez; BYTES mutez; BYTES timestamp) *)
Theorem C16_other_operands_rejected : forall o st,
  specified o st = false -> lenient o st = false -> exec o st = Reject.
Proof. exact unspecified_rejected. Qed.
Print Assumptions C16_other_operands_rejected.

(* mutez results fail exactly on overflow / underflow *)
Theorem C16_add_mutez_fails_iff_overflow : forall a b, in_mutez a = true -> in_mutez b = true ->
  (exec ADD [VMutez a; VMutez b] = Reject <-> 2 ^ 63 <= a + b).
Proof. exact add_mutez_fails_iff. Qed.
Print Assumptions C16_add_mutez_fails_iff_overflow.

Theorem C16_mul_mutez_fails_iff_overflow : forall a n, in_mutez a = true -> 0 <= n ->
  (exec MUL [VMutez a; VNat n] = Reject <-> 2 ^ 63 <= a * n) /\
  (exec MUL [VNat n; VMutez a] = Reject <-> 2 ^ 63 <= n * a).
Proof. exact mul_mutez_fails_iff. Qed.
Print Assumptions C16_mul_mutez_fails_iff_overflow.

Theorem C16_sub_mutez_fails_iff_negative : forall a b, in_mutez a = true -> in_mutez b = true ->
  (exec SUB [VMutez a; VMutez b] = Reject <-> a < b).
Proof. exact sub_mutez_fails_iff. Qed.
Print Assumptions C16_sub_mutez_fails_iff_negative.

(* SUB_MUTEZ never fails: None exactly for a negative difference, otherwise Some (a - b) *)
Theorem C16_sub_mutez_none_iff_negative : forall a b, in_mutez a = true -> in_mutez b = true ->
  (exec SUB_MUTEZ [VMutez a; VMutez b] = Ok (VNone TMutez) <-> a < b) /\
  (exec SUB_MUTEZ [VMutez a; VMutez b] = Ok (VSome (VMutez (a - b))) <-> b <= a).
Proof. exact sub_mutez_none_iff. Qed.
Print Assumptions C16_sub_mutez_none_iff_negative.

(* shifts fail exactly above 256 *)
Theorem C16_shift_fails_iff_above_256 : forall a s, 0 <= a -> 0 <= s ->
  (exec LSL [VNat a; VNat s] = Reject <-> 256 < s) /\
  (exec LSR [VNat a; VNat s] = Reject <-> 256 < s).
Proof. exact shift_fails_iff. Qed.
Print Assumptions C16_shift_fails_iff_above_256.

(* divmod + sign repair is Euclidean division: characterised by a = b*q + r, 0 <= r < |b| *)
Theorem C16_ediv_is_euclidean : forall a b q r,
  py_ediv a b = Some (q, r) <-> (b <> 0 /\ a = b * q + r /\ 0 <= r < Z.abs b).
Proof. exact py_ediv_iff. Qed.
Print Assumptions C16_ediv_is_euclidean.

(* on each of the six accepted overloads EDIV returns None exactly for a zero divisor and never fails *)
Theorem C16_ediv_none_iff_zero_divisor : forall a b ta x tb y tq tr,
  forallb wf_val [a; b] = true ->
  num a = Some (ta, x) -> num b = Some (tb, y) -> ediv_table ta tb = Some (tq, tr) ->
  (exec EDIV [a; b] = Ok (VNone (TPair tq tr)) <-> y = 0) /\
  (y <> 0 -> exists q r, exec EDIV [a; b] = Ok (VSome (VPair q r)) /\
                         num q = Some (tq, fst (euclid x y)) /\ num r = Some (tr, snd (euclid x y))).
Proof. exact ediv_none_iff. Qed.
Print Assumptions C16_ediv_none_iff_zero_divisor.

(* int -> bytes -> int and nat -> bytes -> nat are the identity, for every integer *)
Theorem C16_bytes_int_roundtrip : forall z,
  exists b, exec BYTES [VInt z] = Ok (VBytes b) /\ exec INT [VBytes b] = Ok (VInt z).
Proof. exact bytes_int_roundtrip. Qed.
Print Assumptions C16_bytes_int_roundtrip.

Theorem C16_bytes_nat_roundtrip : forall n, 0 <= n ->
  exists b, exec BYTES [VNat n] = Ok (VBytes b) /\ exec NAT [VBytes b] = Ok (VNat n).
Proof. exact bytes_nat_roundtrip. Qed.
Print Assumptions C16_bytes_nat_roundtrip.

(* BYTES yields the unique shortest encoding *)
Theorem C16_bytes_is_shortest_encoding : forall z b,
  (py_bytes true z = Ok b -> min_encoding true z b) /\
  (0 <= z -> py_bytes false z = Ok b -> min_encoding false z b) /\
  (forall s b', min_encoding s z b -> min_encoding s z b' -> b = b').
Proof.
  intros z b. split; [apply min_encoding_signed|]. split; [intros; apply min_encoding_unsigned; assumption|].
  intros s b'. apply min_encoding_unique.
Qed.
Print Assumptions C16_bytes_is_shortest_encoding.

(* bytes -> int -> bytes returns the original string exactly when it has no redundant sign byte *)
Theorem C16_int_bytes_roundtrip_iff_minimal : forall b,
  exec BYTES [VInt (py_from_bytes true b)] = Ok (VBytes b) <->
  (forall b', py_from_bytes true b' = py_from_bytes true b -> (length b <= length b')%nat).
Proof. exact int_bytes_roundtrip_iff. Qed.
Print Assumptions C16_int_bytes_roundtrip_iff_minimal.

(* Python's from_bytes (Horner accumulation, sign from the first byte) is the positional
   two's-complement value (sign from bit 8*len-1) *)
Theorem C16_from_bytes_is_twos_complement : forall l,
  py_from_bytes true l = signed_value l /\ py_from_bytes false l = unsigned_value l.
Proof. intro l. split; [symmetry; apply signed_value_py | apply be_val_unsigned]. Qed.
Print Assumptions C16_from_bytes_is_twos_complement.

(* AND / OR / XOR / NOT bit by bit (infinite two's complement) *)
Theorem C16_bitwise_spec : forall a b i, 0 <= i ->
  Z.testbit (py_and a b) i = Z.testbit a i && Z.testbit b i /\
  Z.testbit (py_or a b) i = Z.testbit a i || Z.testbit b i /\
  Z.testbit (py_xor a b) i = xorb (Z.testbit a i) (Z.testbit b i) /\
  Z.testbit (py_invert a) i = negb (Z.testbit a i).
Proof. exact bitwise_spec. Qed.
Print Assumptions C16_bitwise_spec.

(* non-vacuity / sanity: concrete evaluations of the model *)
Example C16_ex_bytes_128 : exec BYTES [VInt 128] = Ok (VBytes [x00; x80]).
Proof. vm_compute. reflexivity. Qed.
Example C16_ex_bytes_m129 : exec BYTES [VInt (-129)] = Ok (VBytes [xff; x7f]).
Proof. vm_compute. reflexivity. Qed.
Example C16_ex_ediv : exec EDIV [VInt (-7); VInt (-2)] = Ok (VSome (VPair (VInt 4) (VNat 1))).
Proof. vm_compute. reflexivity. Qed.
Example C16_ex_overflow : exec ADD [VMutez (2 ^ 63 - 1); VMutez 1] = Reject.
Proof. vm_compute. reflexivity. Qed.
Example C16_ex_specified : specified EDIV [VMutez 5; VNat 0] = true /\ forallb wf_val [VMutez 5; VNat 0] = true.
Proof. vm_compute. split; reflexivity. Qed.

(* the whole program  PUSH operands ; OP  (the function the correspondence check compares with the
   real Interpreter): valid literals give exactly the reference result, an invalid nat / mutez literal
   (negative, or mutez >= 2^63) makes the program fail *)
Theorem C16_program_exact : forall o lits r,
  forallb literal_ok lits = true -> Ref o lits r -> run o lits = r.
Proof. exact run_exact. Qed.
Print Assumptions C16_program_exact.

Theorem C16_invalid_literal_rejected : forall o lits,
  forallb literal_ok lits = false -> run o lits = Reject.
Proof. exact run_invalid_literal. Qed.
Print Assumptions C16_invalid_literal_rejected.
