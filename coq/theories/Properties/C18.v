(* C18 — Michelson text formatting and parsing are inverse.
   Models: Codec/Printer.v (format.py: the token stream of format_node / is_framed / is_script),
   Codec/Lexer.v (the PLY lexer of parse.py), Codec/Parser.v (the PLY grammar, its conflict
   resolution and semantic actions, michelson_to_micheline). *)
From Coq Require Import List ZArith Bool.
From Coq.Strings Require Import Byte.
From PV Require Import Base.Bytes Codec.Micheline Codec.Printer Codec.Lexer Codec.Parser.
From PV Require Import Proofs.Printer_proofs Proofs.Parser_proofs.
Import ListNotations.

(* parsing the token stream the formatter emits gives the expression back: every expression over
   known primitives whose argument-position applications are ones the formatter parenthesises
   (wf_expr), any integers, strings, bytes, annotations, nesting *)
Theorem C18_parse_fmt_tokens : forall e, wf_expr e = true -> parse_tokens (fmt_tokens e) = TNode e.
Proof. exact parse_tokens_fmt_tokens. Qed.
Print Assumptions C18_parse_fmt_tokens.

(* the parser's fuel (number of tokens + 1) is never exhausted: TopFuel is not a possible answer *)
Theorem C18_parser_total : forall ts, parse_top ts <> TopFuel.
Proof. exact parse_top_no_fuel. Qed.
Print Assumptions C18_parser_total.
