(* C18 — Michelson text formatting and parsing are inverse.
   Models: Codec/Printer.v (format.py: the token stream of format_node / is_framed / is_script, the
   literal texts json.dumps / str / hex), Codec/Lexer.v (the PLY lexer of parse.py),
   Codec/Parser.v (the PLY grammar with its conflict resolution and semantic actions,
   michelson_to_micheline).  Text = list of characters 0..255.

   The formatter's inline / multi-line choice and indentation only decide which white space stands
   between the tokens; the theorems quantify over EVERY layout [lt] (white space characters, line
   comments, block comments between the tokens; nothing at all is allowed next to a bracket or a
   semicolon), so both layouts of micheline_to_michelson are instances.

   Domain [wf_expr e]: primitive tags of tags.py whose names are PRIM tokens (all but the placeholder
   __CREATE_ACCOUNT__), annotations that are one ANNOT token, and every application with annotations
   or arguments standing in ARGUMENT position is one that is_framed parenthesises; the root is not a
   one-element list holding a single parameter/storage/code section.  Integers, strings (all 256
   characters) and byte strings are unrestricted, nesting is unbounded.

   The faithful model violates the property outside this domain in one way that is a genuine defect
   of /repo (known finding, see C18_inner_sigil_annot_refuted): an annotation with an inner sigil
   (%a@b, legal in Octez) is lexed as two annotations.  Hence the main statements carry the suffix
   _partial.  (A second class, unparenthesised constant / Lambda_rec / Ticket arguments, was found
   here and repaired in /repo by commit d644aa7; the model follows the repaired is_framed.) *)
From Coq Require Import List ZArith Bool.
From Coq.Strings Require Import Byte.
From PV Require Import Base.Bytes Codec.Micheline Codec.Printer Codec.Lexer Codec.Parser.
From PV Require Import Proofs.Printer_proofs Proofs.Lexer_proofs Proofs.Parser_proofs.
Import ListNotations.

(* THE PROPERTY for the exact text the formatter writes: [format_text inline e] is the model of
   micheline_to_michelson(e, inline) character for character (line-width rule, indentation, glued
   semicolons of script roots, trailing blank of an argument-less IF), in BOTH layouts.
   FULL STATEMENT (not provable for the code as it is): the same for every e that denotes Michelson
   code, a type or data.  Missing: the class refuted below (C18_inner_sigil_annot_refuted). *)
Theorem C18_parse_format_partial : forall inline e,
  wf_expr e = true -> parse_text (format_text inline e) = TNode e.
Proof. exact parse_format_text. Qed.
Print Assumptions C18_parse_format_partial.

(* The same with the domain stated WITHOUT reference to is_framed: [michelson_expr e] only says that
   the applications standing in argument position are the ones Michelson puts there (composite types,
   Pair/Left/Right/Some/Lambda_rec/Ticket, constant; simple types with annotations only), that tags and
   annotations are tokens, and that the root is not a single section.  That the formatter parenthesises
   every one of them is part of the proof (this is what defects #16 and #44 had broken). *)
Theorem C18_parse_format_michelson_partial : forall inline e,
  michelson_expr e = true -> parse_text (format_text inline e) = TNode e.
Proof. intros inline e H. apply parse_format_text, michelson_expr_wf, H. Qed.
Print Assumptions C18_parse_format_michelson_partial.

(* that text is a layout of the token stream fmt_tokens e (so the layout-quantified theorem below
   applies to it), in both modes *)
Theorem C18_format_text_tokens : forall inline e,
  tags_ok e = true -> lex (format_text inline e) = LexOk (fmt_tokens e).
Proof. exact lex_format_text. Qed.
Print Assumptions C18_format_text_tokens.

(* The same for EVERY layout of the tokens, not only the two the formatter produces.
   FULL STATEMENT (not provable for the code as it is):
     forall e lt final, e denotes Michelson code, a type or data ->
       map snd lt = fmt_tokens e -> layout_ok None lt = true -> forallb wf_filler final = true ->
       parse_text (render lt final) = TNode e.
   Proved: the same with [wf_expr e]; missing: the class refuted below. *)
Theorem C18_parse_format_text_partial : forall e lt final,
  wf_expr e = true -> map snd lt = fmt_tokens e ->
  layout_ok None lt = true -> forallb wf_filler final = true ->
  parse_text (render lt final) = TNode e.
Proof. exact parse_text_render. Qed.
Print Assumptions C18_parse_format_text_partial.

(* the instance "one space between consecutive tokens" as a closed function of e *)
Theorem C18_parse_format_spaced_partial : forall e,
  wf_expr e = true -> parse_text (render (spaced (fmt_tokens e)) []) = TNode e.
Proof.
  intros e H. apply parse_text_render; [exact H | apply map_snd_spaced | apply layout_ok_spaced | reflexivity].
Qed.
Print Assumptions C18_parse_format_spaced_partial.

(* token level: the grammar (greedy annotations and arguments, right-nested SEMI lists flattened,
   braces, parentheses) inverts the framing / root / sequence rules of format_node *)
Theorem C18_parse_fmt_tokens_partial : forall e, wf_expr e = true -> parse_tokens (fmt_tokens e) = TNode e.
Proof. exact parse_tokens_fmt_tokens. Qed.
Print Assumptions C18_parse_fmt_tokens_partial.

(* the same on named expressions with arbitrary literal texts: only the framing condition matters *)
Theorem C18_parse_top_fmt_root : forall p,
  framed_ok p = true -> root_ok p = true -> parse_top (fmt_root p) = TopSome p.
Proof. exact parse_top_fmt_root. Qed.
Print Assumptions C18_parse_top_fmt_root.

(* layout independence: lexing the rendering of ANY list of well-formed tokens with ANY choice of
   white space, newlines and comments between them gives the token list back *)
Theorem C18_lex_layout_free : forall lt final,
  layout_ok None lt = true -> forallb wf_token (map snd lt) = true -> forallb wf_filler final = true ->
  lex (render lt final) = LexOk (map snd lt).
Proof. exact lex_render. Qed.
Print Assumptions C18_lex_layout_free.

(* printing one token and lexing it yields the token (negative integers, 0x.., strings with every
   escape, annotations, primitive names, brackets) *)
Theorem C18_lex_print_token : forall t, wf_token t = true -> lex (render_token t) = LexOk [t].
Proof. exact lex_render_token. Qed.
Print Assumptions C18_lex_print_token.

(* the literal texts are read back: str/int for all integers, json.dumps/json.loads for all
   strings over the 256 characters, hex for all byte strings; and they are tokens *)
Theorem C18_literals_read_back : forall (z : Z) (s b : bytes),
  Z_of_dec (dec_of_Z z) = z /\ json_unescape (json_escape s) = ROk s /\ unhex (hex_of_bytes b) = Some b /\
  wf_token (TInt (dec_of_Z z)) = true /\ wf_token (TStr (json_escape s)) = true /\
  wf_token (TByt (hex_of_bytes b)) = true.
Proof.
  intros z s b. repeat split.
  - apply Z_of_dec_of_Z.
  - apply json_unescape_escape.
  - apply unhex_hex_of_bytes.
  - apply dec_of_Z_wf.
  - apply json_escape_wf.
  - apply hex_of_bytes_wf.
Qed.
Print Assumptions C18_literals_read_back.

(* the formatter is injective on the domain: two different expressions never print alike *)
Theorem C18_format_injective : forall e1 e2,
  wf_expr e1 = true -> wf_expr e2 = true -> fmt_tokens e1 = fmt_tokens e2 -> e1 = e2.
Proof. exact fmt_tokens_injective. Qed.
Print Assumptions C18_format_injective.

(* the lexer model's linear-time string rule is exactly the backtracking search of the regular
   expression QUOTE ( BACKSLASH any-but-newline | any-but-QUOTE )* QUOTE on every input *)
Theorem C18_string_rule_is_backtracking : forall s, str_end s = str_end_bt s.
Proof. exact str_end_is_backtracking. Qed.
Print Assumptions C18_string_rule_is_backtracking.

(* micheline_to_michelson(wrap=True) puts one pair of parentheses around a text that starts with
   Pair/Left/Right/Some; michelson_to_micheline strips exactly that pair *)
Theorem C18_wrap_is_stripped : forall s,
  strip_parens s = s -> parse_text (c_lparen :: s ++ [c_rparen]) = parse_text s.
Proof. exact parse_text_wrap. Qed.
Print Assumptions C18_wrap_is_stripped.

(* fuel is never exhausted: the fuel answers of the lexer and the parser are impossible *)
Theorem C18_no_fuel_exhaustion : forall s ts, lex s <> LexFuel /\ parse_top ts <> TopFuel.
Proof. intros s ts. split; [apply lex_no_fuel | apply parse_top_no_fuel]. Qed.
Print Assumptions C18_no_fuel_exhaustion.

(* ---- the remaining defect class (faithful model of /repo HEAD) ---- *)
(* nat %a@b is read back as nat %a @b *)
Theorem C18_inner_sigil_annot_refuted : exists e,
  framed_ok (to_pnode e) = true /\ parse_text (render (spaced (fmt_tokens e)) []) <> TNode e.
Proof.
  exists (NPrim x62 [] [[x25; x61; x40; x62]]). split; [reflexivity|].
  vm_compute. discriminate.
Qed.
Print Assumptions C18_inner_sigil_annot_refuted.

(* ---- non-vacuity ---- *)
(* PUSH (pair (nat %a) int) (Pair 1 -2 STRING) ; IF { DROP } { } (the string holds a quote and a
   newline) with annotated types in argument
   position, a negative integer, escapes, nested and empty sequences *)
Definition ex_code : node :=
  NSeq [NPrim x43 [NPrim x65 [NPrim x62 [] [[x25; x61]]; NPrim x5b [] []] [];
                  NPrim x07 [NInt 1; NInt (-2); NStr [x61; x22; x62; x0a]] []] [];
        NPrim x2c [NSeq [NPrim x20 [] []]; NSeq []] []].
Example C18_example_wf : wf_expr ex_code = true /\ michelson_expr ex_code = true.
Proof. vm_compute. split; reflexivity. Qed.
(* a multi-line layout with a comment *)
Example C18_example_layout :
  let lt := combine ([] :: repeat [FWs c_lf; FWs c_sp; FLine [x63]; FBlock [x64]] 40) (fmt_tokens ex_code) in
  map snd lt = fmt_tokens ex_code /\ layout_ok None lt = true /\ parse_text (render lt [FWs c_lf]) = TNode ex_code.
Proof. vm_compute. repeat split. Qed.
(* global-constant references, recursive-lambda and ticket literals as arguments are in the domain
   (since /repo commit d644aa7) *)
Example C18_example_constant_arg :
  wf_expr (NPrim x07 [NPrim x92 [NStr [x78]] []; NPrim x98 [NSeq []] [];
                      NPrim x9d [NStr [x4b]; NPrim x62 [] []; NInt 1; NInt 1] []] []) = true.
Proof. vm_compute. reflexivity. Qed.
(* the multi-line text really has newlines: a sequence wider than 100 columns *)
Example C18_example_multiline :
  let e := NSeq (repeat (NPrim x43 [NPrim x62 [] [[x25; x61; x62; x63]]; NInt 1234567] []) 6) in
  wf_expr e = true /\ existsb (byte_eqb c_lf) (format_text false e) = true /\
  existsb (byte_eqb c_lf) (format_text true e) = false /\
  parse_text (format_text false e) = TNode e /\ parse_text (format_text true e) = TNode e.
Proof. vm_compute. repeat split. Qed.
(* outside the domain by design: a root list holding one section prints as the bare section *)
Example C18_single_section_root :
  parse_tokens (fmt_tokens (NSeq [NPrim x02 [NSeq []] []])) = TNode (NPrim x02 [NSeq []] []).
Proof. vm_compute. reflexivity. Qed.
