(* C24 — Automatically chosen fees meet the node's default minimal fee.
   Model: Client/Fees.v (calculate_fee / default_fee / default limits, OperationGroup.fill and
   .autofill, OperationResult's consumption sums).  Spec: [min_fee size gas] = 100 mutez + 1 mutez per
   byte of the *signed* operation (branch ++ contents ++ signature, 96 signature bytes for tz4) +
   0.1 mutez per unit of the total gas limit, rounded up.

   Full statement (property text): for every batch cs <> [], every key kind cv, every simulation
   result, both for fill and for autofill:  min_fee (signed_size cv out) (total_gas out) <= total_fee out.
   The faithful model REFUTES it (known finding #23, left in /repo):
     - fill() puts a fee on content 0 only, computed from content 0 alone     -> C24_fill_batch_refuted
     - 64 signature bytes are budgeted, a tz4 signature has 96                 -> C24_tz4_refuted
     - fill() budgets the built-in 1040000 gas while taking the limit from the node -> C24_fill_node_limit_refuted
   What is proved on the complement of these classes is named _partial. *)
From Coq Require Import List NArith Bool.
From PV Require Import Client.Fees Proofs.Fees_proofs.
From PV Require Codec.Ops Proofs.Ops_proofs.
Import ListNotations.
Local Open Scope N_scope.

(* autofill: any batch size with a tz1/tz2/tz3 source, and tz4 batches of two or more contents; any
   contents, counters, mempool offset, node constants and simulated consumptions.  The side
   condition says the chosen fee fits 11 zarith bytes; C24_autofill_fee_bound derives it from
   limits every node enforces. *)
Theorem C24_autofill_covers_min_partial :
  forall cv hard_gas hard_storage ctr offset cs sims,
  cs <> [] -> length sims = length cs ->
  (cv <> BL \/ (2 <= length cs)%nat) ->
  let out := autofill cv hard_gas hard_storage ctr offset cs sims in
  total_fee out < 2 ^ 77 ->
  min_fee (signed_size cv out) (total_gas out) <= total_fee out.
Proof. exact autofill_covers_min. Qed.
Print Assumptions C24_autofill_covers_min_partial.

Theorem C24_autofill_fee_bound :
  forall cv hard_gas hard_storage ctr offset cs sims,
  cs <> [] -> length sims = length cs ->
  let out := autofill cv hard_gas hard_storage ctr offset cs sims in
  total_size out < 2 ^ 64 -> total_gas out < 2 ^ 64 -> nlen cs < 2 ^ 32 ->
  total_fee out < 2 ^ 77.
Proof. exact autofill_fee_bound. Qed.
Print Assumptions C24_autofill_fee_bound.

(* the two together, with hypotheses on the result only in terms a node enforces anyway *)
Corollary C24_autofill_bounded_partial :
  forall cv hard_gas hard_storage ctr offset cs sims,
  cs <> [] -> length sims = length cs ->
  (cv <> BL \/ (2 <= length cs)%nat) ->
  let out := autofill cv hard_gas hard_storage ctr offset cs sims in
  total_size out < 2 ^ 64 -> total_gas out < 2 ^ 64 -> nlen cs < 2 ^ 32 ->
  covers_min cv out = true.
Proof.
  intros cv hg hs ctr off cs sims Hne Hlen Hcv out Hs Hg Hn. unfold covers_min. apply N.leb_le.
  apply autofill_covers_min; try assumption. apply autofill_fee_bound; assumption.
Qed.
Print Assumptions C24_autofill_bounded_partial.

(* fill of a single content whose fee and gas limit are left to the client, tz1/tz2/tz3 source, node
   limit not above the built-in default *)
Theorem C24_fill_single_partial :
  forall cv hard_gas hard_storage ctr c,
  cv <> BL -> hard_gas <= DEFAULT_HARD_GAS ->
  fee c = 0 -> gas_limit c = 0 ->
  let out := fill cv hard_gas hard_storage ctr [c] in
  total_fee out < 2 ^ 133 ->
  min_fee (signed_size cv out) (total_gas out) <= total_fee out.
Proof. exact fill_single_covers_min. Qed.
Print Assumptions C24_fill_single_partial.

(* known finding, class "fill() of a batch with n >= 2 contents": two plain transfers from a tz1 *)
Theorem C24_fill_batch_refuted :
  exists cv ctr cs, cv <> BL /\ length cs = 2%nat /\
    covers_min cv (fill cv DEFAULT_HARD_GAS DEFAULT_HARD_STORAGE ctr cs) = false.
Proof.
  exists Ed, 1, [transfer; transfer]. split; [discriminate|]. split; [reflexivity|].
  exact fill_batch_underpays.
Qed.
Print Assumptions C24_fill_batch_refuted.

(* known finding, class "tz4 source": a single transfer, both through fill and through autofill *)
Theorem C24_tz4_refuted :
  (exists ctr c, covers_min BL (fill BL DEFAULT_HARD_GAS DEFAULT_HARD_STORAGE ctr [c]) = false) /\
  (exists ctr c sims, length sims = 1%nat /\
     covers_min BL (autofill BL DEFAULT_HARD_GAS DEFAULT_HARD_STORAGE ctr 0 [c] sims) = false).
Proof.
  split.
  - exists 1, transfer. exact fill_tz4_underpays.
  - exists 1, transfer, [[mks 100000 0 false]]. split; [reflexivity | exact autofill_tz4_underpays].
Qed.
Print Assumptions C24_tz4_refuted.

(* known finding, class "fill() against a node whose hard_gas_limit_per_operation exceeds 1040000" *)
Theorem C24_fill_node_limit_refuted :
  exists hard_gas c, DEFAULT_HARD_GAS < hard_gas /\ fee c = 0 /\ gas_limit c = 0 /\
    covers_min Ed (fill Ed hard_gas DEFAULT_HARD_STORAGE 1 [c]) = false.
Proof.
  exists 2000000, call_kt. split; [reflexivity|]. split; [reflexivity|]. split; [reflexivity|].
  exact fill_big_node_limit_underpays.
Qed.
Print Assumptions C24_fill_node_limit_refuted.

(* the abstract content of the fee model is not an assumption: for every manager content of the operation
   codec (Codec/Ops.v, C06) the model's [size] is the length of the bytes pytezos forges for it *)
Theorem C24_size_is_forged_size : forall h op,
  length (snd (Ops.source h)) = 20%nat ->
  N.of_nat (length (Ops.forge_operation (Ops.CManager h op))) = size (Ops_proofs.fees_abstract h op).
Proof. exact Ops_proofs.fees_size_is_forged_size. Qed.
Print Assumptions C24_size_is_forged_size.

(* non-vacuity: a two-transfer batch through autofill; fee 460 on content 0 against a minimum of 339 *)
Example C24_example :
  report Ed (autofill Ed DEFAULT_HARD_GAS DEFAULT_HARD_STORAGE 1 0 [transfer; transfer]
                      [[mks 100000 0 false]; [mks 100000 0 false]])
  = ([(460, 1, 200, 100); (0, 2, 200, 100)], [52; 51], 339, true).
Proof. exact autofill_example. Qed.
