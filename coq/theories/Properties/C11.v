(* C11 — typed values round-trip through readable, optimized and legacy-optimized Micheline.
   Model: Michelson/Values.v (to_mich = to_micheline_value(mode), of_mich = from_micheline_value,
   has_type = the values pytezos' constructors build) and Michelson/Timestamp.v.
   [C : codec] is the Base58Check text layer (any functions satisfying [codec_ok]; the real ones do:
   C11_real_codec_ok), [lam : node -> result node] is the instruction parser used for lambda bodies
   (arbitrary).  No bound on the depth of the type, the length of a comb or the size of an integer.
   Outside [has_type]: addresses spelt with a bare trailing '%' (known finding C11/empty-entrypoint),
   types without a modelled value form (operation, sapling types); never has no values.
   A big_map value is its id or a literal map (to_micheline_value with lazy_diff=None).
   Tickets are modelled: (ticketer, contents, amount) rendered as the comb pair address <contents> nat. *)
From Coq Require Import String List ZArith NArith Bool Arith.
From Coq.Strings Require Import Byte.
From PV Require Import Base.Bytes Base.Result Codec.Micheline Codec.MichelineBin Codec.Base58 Codec.Domain
  Michelson.Timestamp Michelson.Values Proofs.Timestamp_proofs Proofs.Base58_proofs Proofs.Values_proofs.
Import ListNotations.
Local Open Scope list_scope.

(* the property: every well-typed value of every type parses back to itself in every mode *)
Theorem C11_roundtrip : forall (C : codec) (lam : node -> result node), codec_ok C ->
  forall (m : mode) (t : ty) (v : val),
  has_type lam t v = true -> of_mich C lam t (to_mich C m v) = Ok v.
Proof. intros C lam HC m t v. exact (roundtrip C lam HC m t v). Qed.
Print Assumptions C11_roundtrip.

(* renderings are injective on the values of a type, in every mode *)
Theorem C11_render_injective : forall (C : codec) (lam : node -> result node), codec_ok C ->
  forall m t v1 v2, has_type lam t v1 = true -> has_type lam t v2 = true ->
  to_mich C m v1 = to_mich C m v2 -> v1 = v2.
Proof. intros C lam HC m t v1 v2. exact (to_mich_injective C lam HC m t v1 v2). Qed.
Print Assumptions C11_render_injective.

(* the real Base58Check functions of pytezos (Codec/Base58.v, any sha256 with 32-byte output, the
   pinned table) satisfy the codec laws: round trip of C09 + the alphabet has no '%' *)
Theorem C11_real_codec_ok : forall sha256, sha_ok sha256 -> codec_ok (real_codec sha256 table43).
Proof. exact real_codec_ok. Qed.
Print Assumptions C11_real_codec_ok.

Corollary C11_roundtrip_real : forall sha256 lam, sha_ok sha256 ->
  forall m t v, has_type lam t v = true ->
  of_mich (real_codec sha256 table43) lam t (to_mich (real_codec sha256 table43) m v) = Ok v.
Proof. intros sha256 lam Hs. apply C11_roundtrip, real_codec_ok, Hs. Qed.
Print Assumptions C11_roundtrip_real.

(* closing the quantifier "all values": whatever from_micheline_value builds from a Micheline tree
   (whose strings are valid UTF-8, as Python str is) is well typed — unless it holds an address spelt
   with an empty entrypoint — and therefore round-trips in every mode.
   [codec_sound]: decoded payloads have the length of their kind (true of the real functions);
   the parser hypothesis: lambda bodies come back as sequences in normal form. *)
Theorem C11_parsed_values_well_typed : forall C lam, codec_sound C ->
  (forall n c, lam n = Ok c -> lam c = Ok c /\ exists l, c = NSeq l) ->
  forall t n v, str_utf8 n = true -> of_mich C lam t n = Ok v -> no_empty_ep v = true ->
  has_type lam t v = true.
Proof. exact parsed_well_typed. Qed.
Print Assumptions C11_parsed_values_well_typed.

Theorem C11_parsed_values_roundtrip : forall C lam, codec_ok C -> codec_sound C ->
  (forall n c, lam n = Ok c -> lam c = Ok c /\ exists l, c = NSeq l) ->
  forall t n v m, str_utf8 n = true -> of_mich C lam t n = Ok v -> no_empty_ep v = true ->
  of_mich C lam t (to_mich C m v) = Ok v.
Proof. exact parsed_roundtrip. Qed.
Print Assumptions C11_parsed_values_roundtrip.

Theorem C11_real_codec_sound : forall sha256, sha_ok sha256 -> codec_sound (real_codec sha256 table43).
Proof. exact real_codec_sound. Qed.
Print Assumptions C11_real_codec_sound.

(* timestamps: EVERY integer round-trips through its text form (RFC 3339 inside the years
   1000..9999, decimal integer outside) ... *)
Theorem C11_timestamp_all_Z : forall z : Z, parse_ts (format_timestamp z) = Ok z.
Proof. exact parse_format_timestamp. Qed.
Print Assumptions C11_timestamp_all_Z.

(* ... and as a Michelson value in every mode, whatever the codec *)
Theorem C11_timestamp_value_all_Z : forall C lam m (z : Z),
  of_mich C lam TTimestamp (to_mich C m (VTimestamp z)) = Ok (VTimestamp z).
Proof. intros C lam m z. exact (ts_roundtrip C lam z m). Qed.
Print Assumptions C11_timestamp_value_all_Z.

(* the readable form is a string exactly for the years 1000..9999 and the integer otherwise *)
Theorem C11_timestamp_readable_form : forall C (z : Z),
  (let '(y, _, _) := civil_from_days (z / 86400) in (1000 <= y <= 9999)%Z) ->
     to_mich C Readable (VTimestamp z) = NStr (render_rfc z).
Proof. exact ts_readable_form. Qed.
Print Assumptions C11_timestamp_readable_form.

Theorem C11_timestamp_integer_form : forall C (z : Z),
  ~ (let '(y, _, _) := civil_from_days (z / 86400) in (1000 <= y <= 9999)%Z) ->
     to_mich C Readable (VTimestamp z) = NInt z.
Proof. exact ts_integer_form. Qed.
Print Assumptions C11_timestamp_integer_form.

(* the calendar: days -> civil date -> days is the identity on ALL integers, and the date is valid *)
Theorem C11_civil_inverse : forall z : Z,
  let '(y, m, d) := civil_from_days z in
  (days_from_civil y m d = z /\ 1 <= m <= 12 /\ 1 <= d <= month_days y m)%Z.
Proof. exact civil_from_days_inv. Qed.
Print Assumptions C11_civil_inverse.

(* the comb rule: a right comb with leaves l (|l| >= 2, annotations irrelevant) is rendered as
   Pair l (readable), nested binary pairs (legacy), and in optimized mode as Pair a b, Pair a (Pair b c)
   or, from four leaves on, the sequence of the leaves *)
Theorem C11_comb_rule : forall C a b,
  (2 <= List.length (comb C Optimized (VPair a b)))%nat /\
  to_mich C Readable (VPair a b) = NPrim T_Pair (comb C Readable (VPair a b)) [] /\
  to_mich C LegacyOptimized (VPair a b)
    = NPrim T_Pair [to_mich C LegacyOptimized a; to_mich C LegacyOptimized b] [] /\
  to_mich C Optimized (VPair a b) =
    match comb C Optimized (VPair a b) with
    | [x; y] => NPrim T_Pair [x; y] []
    | [x; y; z] => NPrim T_Pair [x; NPrim T_Pair [y; z] []] []
    | leaves => NSeq leaves
    end.
Proof. intros C a b. exact (comb_rule_all C (fun n => Ok n) a b). Qed.
Print Assumptions C11_comb_rule.

(* known finding C11/empty-entrypoint (FIXLOG #41, not fixed): the value pytezos builds from "KT1...%"
   (entrypoint part present but empty) is outside has_type, and indeed its optimized forms parse
   back to the address WITHOUT entrypoint part, an unequal value *)
Theorem C11_empty_entrypoint_refuted : forall C lam,
  let v := VAddr (KT1, repeat x00 20) (Some []) in
  of_mich C lam TAddress (to_mich C Optimized v) = Ok (VAddr (KT1, repeat x00 20) None) /\
  of_mich C lam TAddress (to_mich C LegacyOptimized v) = Ok (VAddr (KT1, repeat x00 20) None) /\
  has_type lam TAddress v = false.
Proof. exact empty_entrypoint_changes. Qed.
Print Assumptions C11_empty_entrypoint_refuted.

(* ---------------------------------------------------------------- non-vacuity *)

Definition sha0 : bytes -> bytes := fun _ => repeat x00 32.
Example C11_sha_ok_inhabited : sha_ok sha0.
Proof. intro x. reflexivity. Qed.
Example C11_codec_ok_inhabited : codec_ok (real_codec sha0 table43).
Proof. apply real_codec_ok, C11_sha_ok_inhabited. Qed.

Definition ex_ty : ty :=
  TPair TInt (TPair (TOption TKeyHash) (TPair (TSet TNat) (TPair TTimestamp (TPair TAddress (TMap TString TSignature))))).
Definition ex_val : val :=
  VPair (VInt (-5)) (VPair (VSome (VKeyHash (Tz2, repeat x00 20)))
    (VPair (VList [VInt 1; VInt 7]) (VPair (VTimestamp 253402300800)
      (VPair (VAddr (KT1, repeat xff 20) (Some (tx "do")))
             (VMap [(VString (tx "a"), VSig (repeat x01 64)); (VString (tx "b"), VSig (repeat x02 96))]))))).
Definition lam0 : node -> result node := fun n => Ok n.

Example C11_parser_hypothesis_inhabited :
  forall n c, (fun n => match n with NSeq _ => Ok n | _ => Reject end) n = Ok c ->
              (fun n => match n with NSeq _ => Ok n | _ => Reject end) c = Ok c /\ exists l, c = NSeq l.
Proof. intros n c H. destruct n; try discriminate H. injection H as <-. split; [reflexivity|eexists; reflexivity]. Qed.

Example C11_example_typed : has_type lam0 ex_ty ex_val = true.
Proof. vm_compute. reflexivity. Qed.

(* a 6-comb: sequence in optimized mode, and all three modes parse back *)
Example C11_example_roundtrip :
  (match to_mich (real_codec sha0 table43) Optimized ex_val with NSeq l => List.length l | _ => 0%nat end) = 6%nat /\
  forallb (fun m => rval_eqb (of_mich (real_codec sha0 table43) lam0 ex_ty (to_mich (real_codec sha0 table43) m ex_val))
                             (Ok ex_val)) [Readable; Optimized; LegacyOptimized] = true.
Proof. split; vm_compute; reflexivity. Qed.

(* a ticket inside a pair: never flattened into the enclosing comb, three leaves of its own *)
Definition ex_ticket_ty : ty := TPair TNat (TTicket (TPair TString TBytes)).
Definition ex_ticket : val :=
  VPair (VInt 7) (VTicket (KT1, repeat x07 20) (Some (tx "mint")) (VPair (VString (tx "a")) (VBytes [x00; xff])) 3).
Example C11_example_ticket :
  has_type lam0 ex_ticket_ty ex_ticket = true /\
  forallb (fun m => rval_eqb (of_mich (real_codec sha0 table43) lam0 ex_ticket_ty (to_mich (real_codec sha0 table43) m ex_ticket))
                             (Ok ex_ticket)) [Readable; Optimized; LegacyOptimized] = true.
Proof. split; vm_compute; reflexivity. Qed.

(* big_map values: an id or a literal; never has no values but or/option over it do *)
Example C11_example_big_map_never :
  let T := TPair (TBigMap TNat TString) (TPair (TBigMap TNat TString) (TOr TNever (TOption TNever))) in
  let v := VPair (VBigMapId 17) (VPair (VMap [(VInt 1, VString (tx "a")); (VInt 2, VString (tx "b"))]) (VRight VNone)) in
  has_type lam0 T v = true /\
  forallb (fun m => rval_eqb (of_mich (real_codec sha0 table43) lam0 T (to_mich (real_codec sha0 table43) m v)) (Ok v))
          [Readable; Optimized; LegacyOptimized] = true /\
  (forall C lam n, of_mich C lam TNever n = Reject) /\ (forall lam v', has_type lam TNever v' = false).
Proof. repeat split; first [vm_compute; reflexivity | intros lam v'; destruct v'; reflexivity]. Qed.

Example C11_example_timestamps :
  format_timestamp 253402300799 = tx "9999-12-31T23:59:59Z" /\
  format_timestamp 253402300800 = tx "253402300800" /\
  format_timestamp (-30610224000) = tx "1000-01-01T00:00:00Z" /\
  format_timestamp (-30610224001) = tx "-30610224001".
Proof. repeat split; vm_compute; reflexivity. Qed.
