(* C28 — Multi-node clients rotate through nodes regardless of failures.
   Model: Client/MultiNode.v (mirrors RpcMultiNode.request; state = _next_i).
   [run n os] drives a fresh client over n nodes through the outcome script [os]
   (outcome of the selected node's request: success, RpcError, transport error, other exception).
   All theorems hold for every n > 0 and every outcome list (no length bound). *)
From Coq Require Import List Arith Bool ZArith.
From PV Require Import Client.MultiNode Proofs.MultiNode_proofs.
Import ListNotations.

(* the i-th request (0-based) is sent to node i mod n, whatever the earlier outcomes were *)
Theorem C28_ith_request_goes_to_i_mod_n : forall n os i, 0 < n -> i < length os ->
  nth_error (targets (run n os)) i = Some (Some (i mod n)).
Proof. exact ith_target. Qed.
Print Assumptions C28_ith_request_goes_to_i_mod_n.

(* the same for the whole list at once: targets = 0 mod n, 1 mod n, ..., one per request *)
Theorem C28_targets : forall n os, 0 < n ->
  targets (run n os) = map (fun i => Some (i mod n)) (seq 0 (length os)).
Proof. exact targets_eq. Qed.
Print Assumptions C28_targets.

(* every call reaches a node (the assert never fires) and the caller receives exactly
   the outcome of that node, success or failure *)
Theorem C28_outcome_propagated : forall n os, 0 < n ->
  map propagated (events (run n os)) = map Some os /\ ~ In AssertFailed (events (run n os)).
Proof. intros n os Hn. split; [now apply propagated_eq | now apply never_assert]. Qed.
Print Assumptions C28_outcome_propagated.

(* invariant: after k requests _next_i = k mod n *)
Theorem C28_next_i_invariant : forall n os, 0 < n -> final (run n os) = length os mod n.
Proof. exact final_eq. Qed.
Print Assumptions C28_next_i_invariant.

(* necessity of advancing on every outcome: a client that keeps the index after some
   outcome o sends its request number 1 to node 0 instead of node 1 once there are two nodes
   (this is what the code did before the try/finally repair, with o = any exception) *)
Theorem C28_must_advance_on_every_outcome : forall adv n o, 2 <= n -> adv o = false ->
  nth_error (map target (fst (run_from_with adv n 0 [o; o]))) 1 = Some (Some 0) /\ 1 mod n = 1.
Proof. exact must_advance. Qed.
Print Assumptions C28_must_advance_on_every_outcome.

(* the client driven through ANY of its entry points (request(m)/get/post/put/delete, all routed through
   RpcMultiNode.request): call i goes to node i mod n, with the HTTP method of the entry point used, and
   after k calls _next_i = k mod n *)
Theorem C28_any_entry_point : forall n (cs : list (call * outcome)), 0 < n ->
  (forall i, i < length cs -> nth_error (map wire_target (fst (run_calls n cs))) i = Some (Some (i mod n))) /\
  map wire_method (fst (run_calls n cs)) = map (fun co => Some (call_method (fst co))) cs /\
  snd (run_calls n cs) = length cs mod n.
Proof.
  intros n cs Hn. split; [intros i Hi; now apply ith_call_target|].
  split; [now apply calls_methods | now apply calls_final].
Qed.
Print Assumptions C28_any_entry_point.

(* elapsed time is not an input of the model: two sessions that differ only in the pauses before
   the calls behave identically (the implementation consults no clock) *)
Theorem C28_time_is_not_an_input : forall n (tcs tcs' : list (Z * (call * outcome))),
  map snd tcs = map snd tcs' -> run_timed n tcs = run_timed n tcs'.
Proof. exact timed_independent. Qed.
Print Assumptions C28_time_is_not_an_input.

(* non-vacuity / a concrete run: 3 nodes, failures in the middle *)
Example C28_example :
  run 3 [Success; RpcErr; ConnErr; OtherErr; Success]
  = ([Sent 0 Success; Sent 1 RpcErr; Sent 2 ConnErr; Sent 0 OtherErr; Sent 1 Success], 2).
Proof. vm_compute. reflexivity. Qed.

Example C28_example_entry_points :
  run_timed 2 [(0%Z, (CGet, Success)); (91%Z, (CPut, RpcErr)); (86400%Z, (CRequest DELETE, ConnErr)); (1%Z, (CPost, Success))]
  = ([Wire 0 GET Success; Wire 1 PUT RpcErr; Wire 0 DELETE ConnErr; Wire 1 POST Success], 0).
Proof. vm_compute. reflexivity. Qed.
