(* C19 — macro expansions have their specified Michelson meaning. *)
From Coq Require Import List ZArith Bool String.
From PV Require Import Base.Bytes Codec.Micheline Michelson.Macros Proofs.Macros_proofs.
Import ListNotations.

Theorem C19_fail : forall ext (annots : list bytes) s,
  expand "FAIL" [] [] = Some ref_fail /\ eval ext (NSeq ref_fail) s = RFailed VUnit.
Proof. exact fail_meaning. Qed.
Print Assumptions C19_fail.
