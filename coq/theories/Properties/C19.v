(* C19 — macro expansions have their specified Michelson meaning.
   Model: Michelson/Macros.v.  [expand] mirrors pytezos.michelson.macros.expand_macro (code = Micheline nodes);
   [ref_*] are the definitions of the Michelson reference; [eval ext] is the reference evaluator of the
   fragment, parameterised by an arbitrary meaning [ext] of every primitive outside the fragment, so the
   code arguments of IF…/DII+P/MAP_C[AD]+R are arbitrary Micheline.
   [expands_to_ref ext name annots args ref]: the model accepts the call and the expansion has, on EVERY
   stack (well-shaped or not), the same outcome (stack / FAILWITH value / error) as the reference code. *)
From Coq Require Import List ZArith Bool String.
From Coq.Strings Require Import Byte.
From PV Require Import Base.Bytes Codec.Micheline Michelson.Macros Proofs.Macros_proofs.
Import ListNotations.

(* CMP{op}, IF{op}, IFCMP{op}, ASSERT_{op}, ASSERT_CMP{op} for the six comparison operators,
   with any annotations and any two branches *)
Theorem C19_compare_macros : forall ext nm t, In (nm, t) cmp_ops -> forall (annots : list bytes) (bt bf : node),
  expands_to_ref ext ("CMP" ++ nm)%string annots [] (ref_cmp t) /\
  expands_to_ref ext ("IF" ++ nm)%string annots [bt; bf] (ref_if t bt bf) /\
  expands_to_ref ext ("IFCMP" ++ nm)%string annots [bt; bf] (ref_ifcmp t bt bf) /\
  expands_to_ref ext ("ASSERT_" ++ nm)%string [] [] (ref_assert_op t) /\
  expands_to_ref ext ("ASSERT_CMP" ++ nm)%string [] [] (ref_assert_cmp t).
Proof. exact cmp_macros. Qed.
Print Assumptions C19_compare_macros.

(* FAIL, ASSERT, ASSERT_NONE/SOME/LEFT/RIGHT, IF_SOME, IF_RIGHT *)
Theorem C19_fixed_macros : forall ext (annots : list bytes) (bt bf : node),
  expands_to_ref ext "FAIL" [] [] ref_fail /\
  expands_to_ref ext "ASSERT" [] [] ref_assert /\
  expands_to_ref ext "ASSERT_NONE" [] [] ref_assert_none /\
  expands_to_ref ext "ASSERT_SOME" annots [] ref_assert_some /\
  expands_to_ref ext "ASSERT_LEFT" annots [] ref_assert_left /\
  expands_to_ref ext "ASSERT_RIGHT" annots [] ref_assert_right /\
  expands_to_ref ext "IF_SOME" [] [bt; bf] (ref_if_some bt bf) /\
  expands_to_ref ext "IF_RIGHT" [] [bt; bf] (ref_if_right bt bf).
Proof. exact fixed_macros. Qed.
Print Assumptions C19_fixed_macros.

(* D I^n P for every n >= 2: DIP (DIP (… code)) *)
Theorem C19_dixp : forall ext n code,
  expands_to_ref ext (dixp_name (S (S n))) [] [code] [ref_dixp (S (S n)) code].
Proof. exact dixp_macro. Qed.
Print Assumptions C19_dixp.

(* D U^n P for every n >= 2: DIP (DU^(n-1)P) ; SWAP, i.e. a copy of the n-th element on top *)
Theorem C19_duxp : forall ext n (annots : list bytes),
  expands_to_ref ext (duxp_name (S (S n))) annots [] (ref_duxp (S (S n))) /\
  forall s, eval ext (NSeq (ref_duxp (S (S n)))) s = dup_n (S n) s.
Proof. exact duxp_macro. Qed.
Print Assumptions C19_duxp.

(* every PAIR tree macro P…R other than PAIR itself (all tree shapes, by induction on the tree):
   same outcome as the recursive reference definition, which is: consume the leaves from the top of the
   stack left to right and push the tree-shaped pair ([pair_result]); error when the stack is too short *)
Theorem C19_pair_tree : forall ext l r (annots : list bytes), l <> L \/ r <> L ->
  expands_to_ref ext (pair_name (N l r)) annots [] (ref_pair (N l r)) /\
  forall s, eval ext (NSeq (ref_pair (N l r))) s = pair_result (N l r) s.
Proof. exact pair_macro. Qed.
Print Assumptions C19_pair_tree.

Theorem C19_unpair_tree : forall ext l r (annots : list bytes), l <> L \/ r <> L ->
  expands_to_ref ext (unpair_name (N l r)) annots [] (ref_unpair (N l r)) /\
  forall s, eval ext (NSeq (ref_unpair (N l r))) s = unpair_result (N l r) s.
Proof. exact unpair_macro. Qed.
Print Assumptions C19_unpair_tree.

(* each UNPAIR tree macro undoes the matching PAIR tree macro (and conversely), whatever the annotations *)
Theorem C19_unpair_inverts_pair : forall ext l r (a1 a2 : list bytes), l <> L \/ r <> L ->
  exists pc uc, expand (pair_name (N l r)) a1 [] = Some pc /\ expand (unpair_name (N l r)) a2 [] = Some uc /\
    forall s s1, (eval ext (NSeq pc) s = ROk s1 -> eval ext (NSeq uc) s1 = ROk s) /\
                 (eval ext (NSeq uc) s = ROk s1 -> eval ext (NSeq pc) s1 = ROk s).
Proof. exact unpair_pair_inverse. Qed.
Print Assumptions C19_unpair_inverts_pair.

(* C[AD]+R for every path of length >= 2 *)
Theorem C19_cxr : forall ext a b path (annots : list bytes),
  expands_to_ref ext (cxr_name (a :: b :: path)) annots [] (ref_cxr (a :: b :: path)) /\
  forall v s, eval ext (NSeq (ref_cxr (a :: b :: path))) (v :: s) =
              match access (a :: b :: path) v with Some x => ROk (x :: s) | None => RErr end.
Proof. exact cxr_macro. Qed.
Print Assumptions C19_cxr.

(* SET_C[AD]+R for every non-empty path (pytezos expands SET_CAR/SET_CDR to SWAP; UPDATE 1/2) *)
Theorem C19_set_cxr : forall ext a path (annots : list bytes),
  expands_to_ref ext (set_cxr_name (a :: path)) annots [] (ref_set_cxr (a :: path)) /\
  forall v x s, eval ext (NSeq (ref_set_cxr (a :: path))) (v :: x :: s) =
                match set_path (a :: path) v x with Some v' => ROk (v' :: s) | None => RErr end.
Proof. exact set_cxr_macro. Qed.
Print Assumptions C19_set_cxr.

(* MAP_C[AD]+R code for every non-empty path and arbitrary code (at most one field annotation, as
   expand_macro itself demands) *)
Theorem C19_map_cxr : forall ext a path (annots : list bytes) code,
  List.length (field_annots annots) <= 1 ->
  expands_to_ref ext (map_cxr_name (a :: path)) annots [code] (ref_map_cxr (a :: path) code).
Proof. exact map_cxr_macro. Qed.
Print Assumptions C19_map_cxr.

(* every name the model of expand_macro accepts (with whatever annotations and arguments) belongs to one of the
   families above: a fixed name, prefix+operator, D I^n P / D U^n P (n >= 2), a name matched by P[PAI]{3,}R or
   UN P[PAI]{3,}R (the well-formed ones are exactly [pair_name (N l r)], see C19_pair_tree; the others have no
   reference meaning), C[AD]{2,}R, SET_C[AD]+R, MAP_C[AD]+R *)
Theorem C19_accepted_names_classified : forall name (annots : list bytes) (args : list node) code,
  expand name annots args = Some code -> macro_name name.
Proof. exact expand_classified. Qed.
Print Assumptions C19_accepted_names_classified.

(* non-vacuity / sanity *)
Example C19_ex_names :
  pair_name (N (N L L) (N L L)) = "PPAIPAIR"%string /\ unpair_name (N L (N L L)) = "UNPAPAIR"%string /\
  cxr_name [true; false; true] = "CADAR"%string /\ dixp_name 3 = "DIIIP"%string /\
  map_cxr_name [false; true] = "MAP_CDAR"%string.
Proof. repeat split. Qed.

Example C19_ex_papair :
  run_code (match expand "PAPAIR" [] [] with Some c => c | None => [] end) [VInt 3; VInt 2; VInt 1]
  = ROk [VPair (VInt 3) (VPair (VInt 2) (VInt 1))].
Proof. vm_compute. reflexivity. Qed.

Example C19_ex_hyp : (N L L <> L \/ L <> L) /\ In ("NEQ"%string, T_NEQ) cmp_ops /\ List.length (field_annots [[x25; x61]]) <= 1.
Proof. split; [left; discriminate|]. split; [simpl; tauto | simpl; auto]. Qed.
