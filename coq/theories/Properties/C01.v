(* C01 — the interpreter computes the Michelson result of well-typed programs.

   Models: Michelson/RefSem.v [ref_eval] (reference semantics: list stack, recursive DIP, untyped data),
           Michelson/PyStack.v + PySem.v [py_eval] (pytezos: flat item list + `protected` counter,
           values carrying their classes, run-time type checks), Michelson/Typing.v [typecheck].
   [mkst hid vis] is the pytezos stack with hidden (protected) prefix [hid] and visible part [vis];
   the top-level interpreter state is [mkst [] inputs].

   FULL STATEMENT (the property, for the whole instruction set and the full Michelson typing):
     forall fuel env code st R inputs, typecheck code st = Some R -> stack_typed inputs st ->
       ref_eval env fuel code (map erase inputs) <> OutOfFuel ->
       erase_outcome (py_eval env fuel code (mkst [] inputs)) = ref_eval env fuel code (map erase inputs).
   PROVED below ([_partial]): the same statement for
     - the fragment of Michelson/Instr.v ([in_fragment code]: stack manipulation DROP/DUP/SWAP/DIG/DUG/PUSH/DIP n,
       IF, IF_NONE, IF_LEFT, IF_CONS, LOOP, LOOP_LEFT, ITER and MAP on lists, PAIR/UNPAIR/CAR/CDR, LEFT/RIGHT, SOME/NONE,
       UNIT, NIL/CONS, SIZE, ADD/SUB/MUL/NEG/ABS/ISNAT/INT/EDIV on int/nat, COMPARE on every comparable type of the
       fragment, EQ..GE, AND/OR/XOR/NOT on bool, CONCAT on strings, FAILWITH; stage 2: bytes, SLICE, bitwise logic and shifts, PAIR n/UNPAIR n/GET k/UPDATE k, mutez and timestamp
       arithmetic, SUB_MUTEZ, the environment instructions AMOUNT BALANCE SENDER SOURCE SELF_ADDRESS NOW LEVEL CHAIN_ID
       for every environment with amounts in the mutez range; LAMBDA, EXEC, APPLY (first-class lambdas: closures, lambdas
       stored in data structures, nested EXEC); sets and maps of any comparable key type: EMPTY_SET, EMPTY_MAP, MEM, GET, UPDATE, GET_AND_UPDATE, SIZE, ITER,
       MAP on maps, set/map literals (pytezos' sorted Python lists agree with the reference's sorted lists: C01_compare_strict_order
       + sorted insert/remove lemmas);
       LAMBDA_REC, PACK/hashes, tickets, operations/contracts),
     - programs accepted by [typecheck_nr] (the Michelson typing rules of Typing.v with ONE extra condition: every MAP body, on
       lists and on maps, returns the element/value type it got),
     and it is stronger than asked: it holds for every fuel (OutOfFuel on one side iff on the other) and for every
     hidden prefix. Without the MAP restriction the statement is FALSE for pytezos ([C01_simulation_refuted],
     known finding empty-map-retype). *)
From Coq Require Import List ZArith Bool Arith.
From Coq.Strings Require Import Byte.
From PV Require Import Base.Bytes Michelson.Instr Michelson.Typing Michelson.RefSem Michelson.PyStack Michelson.PySem.
From PV Require Import Proofs.Instr_proofs Proofs.PyStack_proofs Proofs.RefSem_proofs Proofs.PySem_proofs.
Import ListNotations.

(* (a) the protected-prefix stack refines the list stack: DROP n, DUP n, DIG n, DUG n, for every n and every stack
   whose counter is within bounds, act on the visible part [view st] exactly as the reference rule ([shuffle], which is
   also what ref_eval uses, see C01_ref_uses_shuffle) and leave the hidden prefix alone; when the reference rule does
   not apply (stack too short) pytezos raises — provided nothing is hidden (with a hidden prefix stack.py's
   `protect` compares against the whole list and may let DUG/DUP overreach: ill-typed programs only). *)
Theorem C01_stack_refinement_shuffle : forall e fuel i st,
  prot st <= length (items st) -> is_shuffle i = true -> (shuffle i (view st) <> None \/ prot st = 0) ->
  py_eval e (S fuel) i st =
    match shuffle i (view st) with Some v' => PDone (mkst (hidden st) v') | None => PError end.
Proof. exact shuffle_refines_st. Qed.
Print Assumptions C01_stack_refinement_shuffle.

Theorem C01_ref_uses_shuffle : forall e i s, is_shuffle i = true -> forall fuel,
  ref_eval e (S fuel) i s = match shuffle i s with Some s' => Done s' | None => Stuck end.
Proof. exact ref_shuffle. Qed.
Print Assumptions C01_ref_uses_shuffle.

(* (a) DIP n: protect(n) ... restore(n) is the recursive DIP of the reference whenever the body leaves the n extra
   hidden items alone (which C01_frame_partial guarantees for every well-typed body) *)
Theorem C01_stack_refinement_DIP : forall e fuel n c st out,
  prot st <= length (items st) -> n <= length (view st) ->
  py_eval e fuel c (mkst (hidden st ++ firstn n (view st)) (skipn n (view st)))
    = PDone (mkst (hidden st ++ firstn n (view st)) out) ->
  py_eval e (S fuel) (I_DIP n c) st = PDone (mkst (hidden st) (firstn n (view st) ++ out)).
Proof. exact dip_refines. Qed.
Print Assumptions C01_stack_refinement_DIP.

(* the primitives of stack.py on a stack with hidden prefix *)
Theorem C01_stack_primitives : forall pre vis x a b,
  push x (mkst pre vis) = mkst pre (x :: vis) /\
  pop (length a) (mkst pre (a ++ b)) = Some (a, mkst pre b) /\
  protect (length a) (mkst pre (a ++ b)) = Some (mkst (pre ++ a) b) /\
  restore (length a) (mkst (pre ++ a) b) = Some (mkst pre (a ++ b)) /\
  peek (mkst pre (x :: vis)) = Some x.
Proof.
  intros. repeat split;
    [apply push_mkst | apply pop_mkst; reflexivity | apply protect_mkst; reflexivity | apply restore_mkst | apply peek_mkst].
Qed.
Print Assumptions C01_stack_primitives.

(* (b) simulation, for the fragment *)
Theorem C01_simulation_partial : forall e, env_okb e = true -> forall fuel code st R hid inputs,
  in_fragment code -> typecheck_nr code st = Some R -> stack_typed inputs st ->
  erase_outcome (py_eval e fuel code (mkst hid inputs)) = ref_eval e fuel code (map erase inputs).
Proof. exact c01_simulation. Qed.
Print Assumptions C01_simulation_partial.

(* ... and the run leaves the hidden prefix and the counter as they were, with a result of the static type *)
Theorem C01_frame_partial : forall e, env_okb e = true -> forall fuel code st R hid inputs stf,
  in_fragment code -> typecheck_nr code st = Some R -> stack_typed inputs st ->
  py_eval e fuel code (mkst hid inputs) = PDone stf ->
  hidden stf = hid /\ prot stf = length hid /\ exists st', R = Typed st' /\ stack_typed (view stf) st'.
Proof. exact c01_frame. Qed.
Print Assumptions C01_frame_partial.

(* REPL sessions (Interpreter.execute called repeatedly on one object): each cell agrees with the reference run from the
   session stack, the `protected` counter is 0 again afterwards, and a cell that fails (FAILWITH or run-time error,
   possibly deep inside DIP n / loops) leaves the session stack exactly as it was — so the theorem applies again to the
   next cell *)
Theorem C01_session_step_partial : forall e, env_okb e = true -> forall fuel code st R inputs,
  in_fragment code -> typecheck_nr code st = Some R -> stack_typed inputs st ->
  let (st', o) := py_execute e fuel code (mkst [] inputs) in
  erase_outcome o = ref_eval e fuel code (map erase inputs) /\ prot st' = 0 /\
  match ref_eval e fuel code (map erase inputs) with
  | Done r => map erase (items st') = r /\ exists s1, R = Typed s1 /\ stack_typed (items st') s1
  | _ => st' = mkst [] inputs
  end.
Proof. exact c01_execute. Qed.
Print Assumptions C01_session_step_partial.

(* EXEC, spelled out (it is also part of C01_simulation_partial): pytezos runs the body on a fresh one-element stack, checks the classes of argument and result and pushes
   the result — with the same outcome as the reference rule, FAILWITH and run-time errors inside the body included *)
Theorem C01_exec_partial : forall e, env_okb e = true -> forall fuel a b body param rest hid,
  in_fragment body -> typecheck_nr body [a] = Some (Typed [b]) -> typed param a ->
  erase_outcome (py_eval e (S fuel) I_EXEC (mkst hid (param :: PLam a b body :: rest)))
  = ref_eval e (S fuel) I_EXEC (map erase (param :: PLam a b body :: rest)).
Proof. exact c01_exec. Qed.
Print Assumptions C01_exec_partial.

(* the reference semantics never gets stuck on these programs (sanity of the transcription) *)
Theorem C01_ref_progress_partial : forall e, env_okb e = true -> forall fuel code st R inputs,
  in_fragment code -> typecheck_nr code st = Some R -> stack_typed inputs st ->
  ref_eval e fuel code (map erase inputs) <> Stuck.
Proof. exact c01_ref_progress. Qed.
Print Assumptions C01_ref_progress_partial.

(* typecheck_nr only accepts well-typed Michelson *)
Theorem C01_nr_is_well_typed : forall c s R, typecheck_nr c s = Some R -> typecheck c s = Some R.
Proof. exact tc_nr_sub. Qed.
Print Assumptions C01_nr_is_well_typed.

(* per-instruction agreement (b) of the design: every instruction without sub-programs *)
Theorem C01_instr_agree : forall e, env_okb e = true -> forall i k fn s s1 vis,
  py_simple e i = Some (k, fn) -> tc_simple true i s = Some s1 -> styped vis s ->
  exists args rest, vis = args ++ rest /\ length args = k /\
    match ref_simple e i (map erase vis) with
    | Done r => exists outs, fn args = POk outs /\ map erase (outs ++ rest) = r /\ styped (outs ++ rest) s1
    | RtError => fn args = PErr
    | _ => False
    end.
Proof. exact simple_agree. Qed.
Print Assumptions C01_instr_agree.

(* COMPARE: Python's == and < on the value classes decide the Michelson total order *)
Theorem C01_compare_agree : forall a b t, typed a t -> typed b t -> comparable t = true ->
  exists c, v_compare (erase a) (erase b) = Some c /\ py_compare a b = Z_of_comparison c.
Proof. exact py_compare_agree. Qed.
Print Assumptions C01_compare_agree.

(* EDIV: the reference quotient/remainder are Euclidean, and Python's divmod + correction computes them *)
Theorem C01_ediv_spec : forall a b, (b <> 0)%Z ->
  (a = b * euclid_q a b + euclid_r a b /\ 0 <= euclid_r a b < Z.abs b)%Z.
Proof. exact euclid_spec. Qed.
Print Assumptions C01_ediv_spec.

(* the order on comparable values is a strict total order where it is defined, which is what makes the sorted-list sets and
   maps of pytezos agree with the reference (no typing hypothesis: v_compare only answers on matching comparable shapes) *)
Theorem C01_compare_strict_order :
  (forall a b, v_compare a b = Some Eq -> a = b) /\
  (forall a b c, v_compare a b = Some c -> v_compare b a = Some (CompOpp c)) /\
  (forall a b c, v_compare a b = Some Lt -> v_compare b c = Some Lt -> v_compare a c = Some Lt).
Proof. exact (conj v_compare_eq (conj v_compare_antisym v_compare_trans)). Qed.
Print Assumptions C01_compare_strict_order.

(* UPDATE on a set / on a map (also the map half of GET_AND_UPDATE): SetType.add/remove and MapType.update compute the
   reference's sorted insert / removal *)
Theorem C01_set_update_agree : forall t x (b : bool) l, typed x t -> comparable t = true -> typed (PSet t l) (TSet t) ->
  (if b then v_set_add (erase x) (map erase l) else v_set_remove (erase x) (map erase l))
  = Some (map erase (if b then py_set_add x l else py_set_remove x l)).
Proof. intros t x b l Hx Hc Hs. exact (proj1 (set_update_agree t x b l Hx Hc Hs)). Qed.
Print Assumptions C01_set_update_agree.

Theorem C01_map_update_agree : forall kt vt k ov l, typed k kt -> comparable kt = true -> typed ov (TOption vt) ->
  typed (PMap kt vt l) (TMap kt vt) ->
  v_map_update (erase k) (erase ov) (map erase l)
  = Some (map erase (py_map_update k (match ov with PSome v => Some v | _ => None end) l)).
Proof. intros kt vt k ov l Hk Hc Ho Hm. exact (proj1 (map_update_agree kt vt k ov l Hk Hc Ho Hm)). Qed.
Print Assumptions C01_map_update_agree.

(* sets and maps are part of the proved simulation; spelled out for the lookups, for every comparable key type (composite keys included), without any
   sortedness assumption: MEM on a set and GET on a map — SetType.contains,
   MapType.get with their class checks — return what the reference rules prescribe, with the right class *)
Theorem C01_mem_get_agree : forall (e : env) x t l vt lm,
  typed x t -> comparable t = true -> Forall (fun y => typed y t) l -> Forall (entry_typed t vt) lm ->
  (exists fn, py_simple e I_MEM = Some (2, fn) /\
     fn [x; PSet t l] = POk [PBool (py_set_contains x l)] /\
     ref_simple e I_MEM (erase x :: VSet (map erase l) :: nil) = Done [VBool (py_set_contains x l)]) /\
  (exists fn, py_simple e I_GET = Some (2, fn) /\
     exists r, fn [x; PMap t vt lm] = POk [r] /\ typed r (TOption vt) /\
     ref_simple e I_GET (erase x :: VMap (map erase lm) :: nil) = Done [erase r]).
Proof. exact mem_get_agree. Qed.
Print Assumptions C01_mem_get_agree.

(* Without the restriction on MAP the simulation is false for pytezos: MAP over an empty list keeps the class of
   the source list and a following CONS fails although the reference succeeds (known finding empty-map-retype). *)
Theorem C01_simulation_refuted : exists e fuel code st R inputs,
  env_okb e = true /\ in_fragment code /\ typecheck code st = Some R /\ stack_typed inputs st /\
  ref_eval e fuel code (map erase inputs) <> OutOfFuel /\
  erase_outcome (py_eval e fuel code (mkst [] inputs)) <> ref_eval e fuel code (map erase inputs).
Proof. exact c01_refuted. Qed.
Print Assumptions C01_simulation_refuted.

(* non-vacuity: a program with DIP/DIG/DUP, ITER, MAP and environment instructions is accepted by typecheck_nr, and runs
   (each fact is proved by vm_compute in Proofs/PySem_proofs.v) *)
Example C01_example :
  typecheck_nr ex_code1 [TInt; TString] = Some (Typed [TOption TMutez; TNat; TPair TInt TString; TString]) /\
  ref_eval ex_env 50 ex_code1 [VInt 7; VStr []] = Done [VSome (VMutez 4); VInt 14; VPair (VInt 7) (VStr []); VStr []] /\
  obs_of (py_eval ex_env 50 ex_code1 (mkst [] [PInt 7; PStr []])) = ODone [PSome (PMutez 4); PNat 14; PPair (PInt 7) (PStr []); PStr []].
Proof. exact (conj ex1_tc (conj ex1_ref ex1_py)). Qed.
