(* C06 — Local operation forging matches the Tezos operation binary format.
   Model: Codec/Ops.v.
     SPEC  enc_group / dec_group : the protocol's operation encoding written with data-encoding style
           codecs (tag dispatch, manager header, zarith naturals, 21/22-byte hashes and addresses,
           entrypoint tags 0..9 / ff len name, options, 4-byte dynamic lengths, parameters omitted iff
           default + Unit);
     PY    forge_operation_group : transcription of the per-kind forgers of operation/forge.py.
   Micheline expressions (parameters, scripts, constants, ticket contents/types) are opaque, already
   forged byte strings (their encoding is C05's subject).  [norm_group] maps explicit
   (default, Unit) parameters to "no parameters" — the same operation for the protocol.
   All theorems hold for every group: any number of contents, any kinds, unbounded numbers. *)
From Coq.Strings Require Import Byte String.
From Coq Require Import List NArith Bool.
From PV Require Import Base.Bytes Codec.Zarith Codec.Ops Proofs.Ops_proofs.
Import ListNotations.
Local Open Scope N_scope.

(* decoding the canonical bytes returns the same branch and contents *)
Theorem C06_dec_enc : forall g, wf_group g -> dec_group (enc_group g) = Some (norm_group g).
Proof. exact dec_enc_group. Qed.
Print Assumptions C06_dec_enc.

(* different groups never forge to the same bytes ... *)
Theorem C06_injective : forall g1 g2, wf_group g1 -> wf_group g2 ->
  enc_group g1 = enc_group g2 -> norm_group g1 = norm_group g2.
Proof. exact enc_group_inj. Qed.
Print Assumptions C06_injective.

(* ... and normalisation identifies exactly groups with the same bytes *)
Theorem C06_normal_form : forall g, enc_group (norm_group g) = enc_group g /\ norm_group (norm_group g) = norm_group g.
Proof.
  intro g. split; [apply enc_group_norm|]. unfold norm_group. cbn. f_equal. rewrite map_map.
  apply map_ext, normalise_idem.
Qed.
Print Assumptions C06_normal_form.

(* the spec decoder is strict: it accepts only canonical bytes (minimal zarith numbers, reserved entrypoints by
   tag, no explicit default/Unit parameters, exact lengths), so every byte string has at most one reading and a
   decoded group re-encodes to the very bytes that were read *)
Theorem C06_decoder_strict : forall bs g, dec_group bs = Some g -> enc_group g = bs /\ norm_group g = g.
Proof. exact dec_group_strict. Qed.
Print Assumptions C06_decoder_strict.

(* pytezos' per-kind forgers produce exactly the canonical encoding, for every group (no
   well-formedness needed: the two descriptions agree byte for byte) *)
Theorem C06_py_is_spec : forall g, forge_operation_group g = enc_group g.
Proof. exact forge_operation_group_spec. Qed.
Print Assumptions C06_py_is_spec.

Corollary C06_py_roundtrip : forall g, wf_group g -> dec_group (forge_operation_group g) = Some (norm_group g).
Proof. intros g H. rewrite forge_operation_group_spec. apply dec_enc_group, H. Qed.
Print Assumptions C06_py_roundtrip.

(* the boolean well-formedness test evaluated by the harness implies the hypothesis above *)
Theorem C06_wf_checked : forall g, wf_groupb g = true -> wf_group g.
Proof. exact wf_groupb_spec. Qed.
Print Assumptions C06_wf_checked.

(* length of a zarith natural, used by C24 for operation sizes *)
Theorem C06_nat_length : forall n, N.of_nat (length (enc_nat n)) = if n =? 0 then 1 else N.log2 n / 7 + 1.
Proof. exact enc_nat_length. Qed.
Print Assumptions C06_nat_length.

(* non-vacuity: a two-content group (reveal + call of the reserved entrypoint "stake") is well-formed,
   forges to 153 bytes and decodes back *)
Example C06_example :
  let src := (KEd, repeat x11 20) in
  let g := mkg (repeat xaa 32)
               [CManager (mkh src 1000 7 200 0) (MReveal (KEd, repeat x22 32) None);
                CManager (mkh src 0 8 128 300) (MTransaction 5 (AOriginated (repeat x33 20)) (Some (tx "stake", [x03; x0b])))] in
  wf_groupb g = true /\ length (enc_group g) = 153%nat /\
  dec_group (forge_operation_group g) = Some g.
Proof. vm_compute. repeat split. Qed.
