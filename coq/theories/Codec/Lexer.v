(* Codec/Lexer.v — model of SimpleMichelsonLexer (/repo/src/pytezos/michelson/parse.py:41-67),
   the PLY lexer whose master regular expression is the alternation (PLY sorts string rules by
   decreasing length of the regular expression, so BYTE is tried before INT)

     ANNOT  one or more of : @ %  followed by any of [_0-9a-zA-Z.]
     PRIM   [A-Za-z][A-Za-z0-9_]+            (at least two characters)
     STR    QUOTE ( BACKSLASH any-but-newline | any-but-QUOTE )* QUOTE     (backtracking)
     BYTE   0x[A-Fa-f0-9]*
     block comment   slash star (no star)* star slash                      (ignored)
     INT    -?[0-9]+
     line comment    hash (no newline)*                                    (ignored)
     single characters  { } ( ) ;      ignored characters  space tab CR LF FF

   A character that starts no match makes PLY call t_error, which hands the parser a token of an
   unknown type: the parse fails.  The model therefore stops with [LexErr] at the first such place.

   The only first characters shared by two alternatives are 0 (BYTE before INT).  Python's
   regular expressions backtrack; this matters for STR only ([str_end]).

   No proofs here (Proofs/Lexer_proofs.v). *)
From Coq Require Import List NArith Bool.
From Coq.Strings Require Import Byte.
From PV Require Import Base.Bytes Codec.Printer.
Import ListNotations.
Local Open Scope list_scope.

(* Where the STR match that starts just before [s] ends: [Some k] = the closing quote is s[k].
   Mirrors the backtracking search of  ( BACKSLASH . | [^QUOTE] )* QUOTE : at a backslash followed by
   a character other than newline first try the two-character unit, and if the rest cannot be
   completed retry with the backslash as a plain character. *)
Fixpoint str_end (s : bytes) : option nat :=
  match s with
  | [] => None
  | c :: r =>
      if byte_eqb c c_quote then Some 0
      else if byte_eqb c c_bslash then
        match r with
        | d :: r' =>
            if byte_eqb d c_lf then option_map S (str_end r)
            else match str_end r' with
                 | Some k => Some (S (S k))
                 | None =>
                     (* no completion after the two-character unit means r' has no quote at all;
                        retrying with a plain backslash can then only succeed by closing at d *)
                     if byte_eqb d c_quote then Some 1 else None
                 end
        | [] => None
        end
      else option_map S (str_end r)
  end.

(* the same search written without the shortcut (Proofs/Lexer_proofs.v: str_end_is_backtracking shows
   the two agree on every input; this one is exponential on inputs full of backslashes, like
   Python's own matcher) *)
Fixpoint str_end_bt (s : bytes) : option nat :=
  match s with
  | [] => None
  | c :: r =>
      if byte_eqb c c_quote then Some 0
      else if byte_eqb c c_bslash then
        match r with
        | d :: r' =>
            if byte_eqb d c_lf then option_map S (str_end_bt r)
            else match str_end_bt r' with
                 | Some k => Some (S (S k))
                 | None => option_map S (str_end_bt r)
                 end
        | [] => None
        end
      else option_map S (str_end_bt r)
  end.

(* rest of the input after a line comment (the newline that ends it is an ignored character and is
   dropped here as well) *)
Fixpoint drop_line (s : bytes) : bytes :=
  match s with
  | [] => []
  | c :: r => if byte_eqb c c_lf then r else drop_line r
  end.

(* after slash star: the body has no star, then star slash must follow *)
Definition block_end (s : bytes) : option bytes :=
  let '(_, r) := span (fun c => negb (byte_eqb c c_star)) s in
  match r with
  | a :: b :: r' => if byte_eqb a c_star && byte_eqb b c_slash then Some r' else None
  | _ => None
  end.

Inductive step : Type :=
| Tok (t : token) (rest : bytes)
| Skip (rest : bytes)
| Eof
| Err.

Inductive cclass : Type :=
| KWs | KHash | KSlash | KLCurly | KRCurly | KLParen | KRParen | KSemi | KQuote | KSigil | KAlpha
| KDigit | KMinus | KOther.

Definition classify (c : byte) : cclass :=
  if is_ws c then KWs
  else if byte_eqb c c_hash then KHash
  else if byte_eqb c c_slash then KSlash
  else if byte_eqb c c_lcurly then KLCurly
  else if byte_eqb c c_rcurly then KRCurly
  else if byte_eqb c c_lparen then KLParen
  else if byte_eqb c c_rparen then KRParen
  else if byte_eqb c c_semi then KSemi
  else if byte_eqb c c_quote then KQuote
  else if is_sigil c then KSigil
  else if is_alpha c then KAlpha
  else if is_digit c then KDigit
  else if byte_eqb c c_minus then KMinus
  else KOther.

(* one match of the master regular expression at the start of [s] *)
Definition lex1 (s : bytes) : step :=
  match s with
  | [] => Eof
  | c :: r =>
      match classify c with
      | KWs => Skip r
      | KHash => Skip (drop_line r)
      | KSlash =>
          match r with
          | a :: r' => if byte_eqb a c_star then
                         match block_end r' with Some r'' => Skip r'' | None => Err end
                       else Err
          | [] => Err
          end
      | KLCurly => Tok TLCurly r
      | KRCurly => Tok TRCurly r
      | KLParen => Tok TLParen r
      | KRParen => Tok TRParen r
      | KSemi => Tok TSemi r
      | KQuote =>
          match str_end r with
          | Some k => Tok (TStr (firstn k r)) (skipn (S k) r)
          | None => Err
          end
      | KSigil =>
          let '(sg, r1) := span is_sigil s in
          let '(tl, r2) := span is_annot_tail r1 in
          Tok (TAnnot (sg ++ tl)) r2
      | KAlpha =>
          let '(tl, r1) := span is_prim_tail r in
          match tl with
          | [] => Err
          | _ => Tok (TPrim (c :: tl)) r1
          end
      | KDigit =>
          let bytelit :=
            if byte_eqb c c_0 then
              match r with
              | a :: r' => if byte_eqb a c_x then Some r' else None
              | [] => None
              end
            else None in
          match bytelit with
          | Some r' => let '(h, r2) := span is_hex r' in Tok (TByt h) r2
          | None => let '(d, r1) := span is_digit s in Tok (TInt d) r1
          end
      | KMinus =>
          let '(d, r1) := span is_digit r in
          match d with
          | [] => Err
          | _ => Tok (TInt (c :: d)) r1
          end
      | KOther => Err
      end
  end.

Inductive lexres : Type :=
| LexOk (toks : list token)
| LexErr                       (* an illegal character: the parser will fail *)
| LexFuel.                     (* never returned by [lex] (Proofs/Lexer_proofs.v: lex_no_fuel) *)

Definition lex_cons (t : token) (r : lexres) : lexres :=
  match r with LexOk l => LexOk (t :: l) | e => e end.

(* every step consumes at least one character, so [S (length s)] steps are enough *)
Fixpoint lex_fuel (n : nat) (s : bytes) : lexres :=
  match n with
  | O => LexFuel
  | S n =>
      match lex1 s with
      | Eof => LexOk []
      | Err => LexErr
      | Skip r => lex_fuel n r
      | Tok t r => lex_cons t (lex_fuel n r)
      end
  end.

Definition lex (s : bytes) : lexres := lex_fuel (S (length s)) s.

Definition lexres_eqb (a b : lexres) : bool :=
  match a, b with
  | LexOk x, LexOk y => list_eqb token_eqb x y
  | LexErr, LexErr => true
  | LexFuel, LexFuel => true
  | _, _ => false
  end.
