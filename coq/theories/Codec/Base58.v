(* Codec/Base58.v — model of src/pytezos/crypto/encoding.py (base58_encodings, base58_encode,
   base58_decode, the is_* validators) and of the functions of the `base58` package (2.1.1) it
   calls: b58encode, b58decode, b58encode_check, b58decode_check.

   Text (Python bytes / ASCII str) and binary data are both [bytes] = [list byte].
   SHA-256 is an argument ([sha256]) of everything that needs the checksum; nothing is assumed
   about it here.  No proofs in this file (Proofs/Base58_proofs.v). *)
From Coq Require Import String List NArith Bool Arith.
From Coq.Strings Require Import Byte.
From PV Require Import Base.Bytes Base.Result.
Import ListNotations.
Local Open Scope list_scope.

(* ------------------------------------------------------------------------------------------ *)
(* positional notation, least significant digit first; [fuel] bounds the number of digits     *)

Fixpoint lsf_digits (B : N) (fuel : nat) (n : N) : list N :=
  match fuel with
  | O => []
  | S f => if (n =? 0)%N then [] else (n mod B)%N :: lsf_digits B f (n / B)%N
  end.

Fixpoint lsf_value (B : N) (l : list N) : N :=
  match l with
  | [] => 0%N
  | d :: r => (d + B * lsf_value B r)%N
  end.

(* exactly [j] digits (zero padded) *)
Fixpoint lsf_fixed (B : N) (j : nat) (n : N) : list N :=
  match j with
  | O => []
  | S j' => (n mod B)%N :: lsf_fixed B j' (n / B)%N
  end.

(* ------------------------------------------------------------------------------------------ *)
(* the Bitcoin alphabet                                                                        *)

Definition alphabet : bytes :=
  Eval vm_compute in tx "123456789ABCDEFGHJKLMNPQRSTUVWXYZabcdefghijkmnopqrstuvwxyz".

Definition char_of_digit (d : N) : byte := nth (N.to_nat d) alphabet x00.

Fixpoint index_of (c : byte) (l : bytes) (i : N) : option N :=
  match l with
  | [] => None
  | x :: r => if byte_eqb c x then Some i else index_of c r (i + 1)%N
  end.

Definition digit_of_char (c : byte) : option N := index_of c alphabet 0%N.

(* b58decode_int: most significant character first; an unknown character is a ValueError *)
Fixpoint chars_value (acc : N) (s : bytes) : option N :=
  match s with
  | [] => Some acc
  | c :: r => match digit_of_char c with
              | Some d => chars_value (acc * 58 + d)%N r
              | None => None
              end
  end.

(* b58encode_int(i, default_one=False): the empty string for 0 *)
Definition b58_of_N (fuel : nat) (n : N) : bytes :=
  map char_of_digit (rev (lsf_digits 58 fuel n)).

(* minimal big-endian bytes of a number (the `while acc > 0: divmod(acc, 256)` loop) *)
Definition min_be (fuel : nat) (n : N) : bytes :=
  map b8 (rev (lsf_digits 256 fuel n)).

Fixpoint lstrip (c : byte) (s : bytes) : bytes :=
  match s with
  | x :: r => if byte_eqb x c then lstrip c r else s
  | [] => []
  end.

(* bytes.rstrip(): trailing ASCII whitespace (space, \t \n \v \f \r) *)
Definition ws_byte (b : byte) : bool :=
  match b with
  | x09 | x0a | x0b | x0c | x0d | x20 => true
  | _ => false
  end.

Fixpoint rstrip_ws (s : bytes) : bytes :=
  match s with
  | [] => []
  | c :: r => match rstrip_ws r with
              | [] => if ws_byte c then [] else [c]
              | r' => c :: r'
              end
  end.

Definition one_char : byte := x31.   (* "1", digit 0 *)

(* base58.b58encode: leading zero bytes become "1"s, the rest is one big number.
   256 < 58^2, so two digits per byte are enough fuel. *)
Definition b58_enc (v : bytes) : bytes :=
  let body := lstrip x00 v in
  repeat one_char (length v - length body) ++ b58_of_N (2 * length body) (be_to_N body).

(* base58.b58decode: None = ValueError (invalid character) *)
Definition b58_dec (s : bytes) : option bytes :=
  let v := rstrip_ws s in
  let u := lstrip one_char v in
  match chars_value 0 u with
  | None => None
  | Some acc => Some (repeat x00 (length v - length u) ++ min_be (length u) acc)
  end.

Section Check.
  Variable sha256 : bytes -> bytes.

  Definition checksum (x : bytes) : bytes := firstn 4 (sha256 (sha256 x)).

  Definition b58check_enc (v : bytes) : bytes := b58_enc (v ++ checksum v).

  (* b58decode_check: result[:-4], result[-4:] *)
  Definition b58check_dec (s : bytes) : option bytes :=
    match b58_dec s with
    | None => None
    | Some r =>
        let n := (length r - 4)%nat in
        let body := firstn n r in
        let chk := skipn n r in
        if bytes_eqb chk (checksum body) then Some body else None
    end.

  (* ---------------------------------------------------------------------------------------- *)
  (* the table and the two typed functions                                                    *)

  Record row := mkrow { tpre : bytes; elen : nat; bpre : bytes; plen : nat }.

  Definition row_eqb (a b : row) : bool :=
    bytes_eqb (tpre a) (tpre b) && Nat.eqb (elen a) (elen b) &&
    bytes_eqb (bpre a) (bpre b) && Nat.eqb (plen a) (plen b).

  Fixpoint is_prefix (p s : bytes) : bool :=
    match p, s with
    | [], _ => true
    | x :: p', y :: s' => byte_eqb x y && is_prefix p' s'
    | _ :: _, [] => false
    end.

  (* next(e for e in base58_encodings if len(v) == e[3] and prefix == e[0]) *)
  Definition find_enc (t : list row) (p tp : bytes) : option row :=
    find (fun r => Nat.eqb (length p) (plen r) && bytes_eqb tp (tpre r)) t.

  (* next(e for e in base58_encodings if len(v) == e[1] and v.startswith(e[0])) *)
  Definition find_dec (t : list row) (s : bytes) : option row :=
    find (fun r => Nat.eqb (length s) (elen r) && is_prefix (tpre r) s) t.

  Definition base58_encode (t : list row) (p tp : bytes) : result bytes :=
    match find_enc t p tp with
    | None => Reject
    | Some r => Ok (b58check_enc (bpre r ++ p))
    end.

  (* base58_decode after fix #21: the decoded bytes must start with the row's binary prefix *)
  Definition base58_decode (t : list row) (s : bytes) : result bytes :=
    match find_dec t s with
    | None => Reject
    | Some r =>
        match b58check_dec s with
        | None => Reject
        | Some d => if is_prefix (bpre r) d then Ok (skipn (length (bpre r)) d) else Reject
        end
    end.

  (* _validate(v, prefixes) after fix #37: the row that matches [v] must carry one of the
     listed textual prefixes, and base58_decode must succeed *)
  Definition validate (t : list row) (prefixes : list bytes) (s : bytes) : bool :=
    match find_dec t s with
    | None => false
    | Some r => if existsb (bytes_eqb (tpre r)) prefixes
                then match base58_decode t s with Ok _ => true | Reject => false end
                else false
    end.

  Definition pkh_prefixes := [tx "tz1"; tx "tz2"; tx "tz3"; tx "tz4"].
  Definition sig_prefixes := [tx "edsig"; tx "spsig"; tx "p2sig"; tx "BLsig"; tx "sig"].
  Definition key_prefixes := [tx "edsk"; tx "edpk"; tx "spsk"; tx "sppk"; tx "p2sk"; tx "p2pk"; tx "BLsk"; tx "BLpk"].

  Definition is_pkh t := validate t pkh_prefixes.
  Definition is_l2_pkh t := validate t [tx "txr1"].
  Definition is_sig t := validate t sig_prefixes.
  Definition is_bh t := validate t [tx "B"].
  Definition is_ogh t := validate t [tx "o"].
  Definition is_kt t := validate t [tx "KT1"].
  Definition is_sr t := validate t [tx "sr1"].
  Definition is_public_key t := validate t key_prefixes.
  Definition is_chain_id t := validate t [tx "Net"].

  (* v.split('%')[0] *)
  Fixpoint before_pct (s : bytes) : bytes :=
    match s with
    | [] => []
    | c :: r => if byte_eqb c x25 then [] else c :: before_pct r
    end.

  Definition is_address t (s : bytes) : bool :=
    let a := before_pct s in if is_kt t a then true else if is_pkh t a then true else is_sr t a.
  Definition is_txr_address t (s : bytes) : bool := is_l2_pkh t (before_pct s).

  (* ---------------------------------------------------------------------------------------- *)
  (* computable side conditions on a table (used by the theorems; evaluated by vm_compute on
     the pinned table below and, in every check run, on the table read from /repo)            *)

  Definition tpre_value (r : row) : option N := chars_value 0 (tpre r).

  (* [row_ok r]: the interval of numbers  bpre·256^(plen+4) … (bpre+1)·256^(plen+4) - 1  lies
     inside the interval of numbers whose base-58 expansion has [elen r] digits and starts
     with [tpre r]. *)
  Definition row_ok (r : row) : bool :=
    match tpre_value r with
    | None => false
    | Some T =>
        let k := length (tpre r) in
        let j := (elen r - k)%nat in
        let m := N.of_nat (plen r + 4) in
        let b := be_to_N (bpre r) in
        Nat.leb k (elen r) &&
        (0 <? T)%N && (T <? 58 ^ N.of_nat k)%N &&
        bytes_eqb (b58_of_N k T) (tpre r) &&
        match bpre r with x00 :: _ => false | [] => false | _ => true end &&
        (T * 58 ^ N.of_nat j <=? b * 256 ^ m)%N &&
        ((b + 1) * 256 ^ m <=? (T + 1) * 58 ^ N.of_nat j)%N
    end.

  (* no string can match two different rows in [find_dec] *)
  Definition rows_compatible (a b : row) : bool :=
    Nat.eqb (elen a) (elen b) && (is_prefix (tpre a) (tpre b) || is_prefix (tpre b) (tpre a)).

  Definition table_unamb (t : list row) : bool :=
    forallb (fun a => forallb (fun b => negb (rows_compatible a b) || row_eqb a b) t) t.

  Definition table_ok (t : list row) : bool := forallb row_ok t && table_unamb t.

  (* [B^0·acc; B^1·acc; …] (n elements) *)
  Fixpoint pows (B : N) (n : nat) (acc : N) : list N :=
    match n with
    | O => []
    | S n' => acc :: pows B n' (acc * B)%N
    end.

  (* [row_ws_ok r]: no number with FEWER than [elen r] base-58 digits that starts with [tpre r]
     is (binary prefix ++ a shorter body): a string of the row's length that ends in whitespace
     (which the base58 package strips) can therefore not pass the binary-prefix check. *)
  Definition row_ws_ok (r : row) : bool :=
    match tpre_value r with
    | None => false
    | Some T =>
        let b := be_to_N (bpre r) in
        let j := (elen r - length (tpre r))%nat in
        let i58 := map (fun P => (T * P, (T + 1) * P)%N) (pows 58 j 1) in
        let i256 := map (fun P => (b * P, (b + 1) * P)%N) (pows 256 (plen r + 4) 1) in
        forallb (fun x => forallb (fun y => negb ((fst x <? snd y)%N && (fst y <? snd x)%N)) i58) i256
    end.

  Definition table_ws_ok (t : list row) : bool := forallb row_ws_ok t.
End Check.


(* ------------------------------------------------------------------------------------------ *)
(* pinned copy of base58_encodings (after fix #29: SSp is a 32-byte scalar / 53 characters,
   GSp a 33-byte element / 54 characters).  The check compares it with /repo on every run and
   re-proves the side conditions for the table it reads there. *)

Definition R (t : string) (el : nat) (b : string) (pl : nat) : row := mkrow (tx t) el (hx b) pl.

Definition table43 : list row := [
  R "B" 51 "0134" 32;
  R "o" 51 "0574" 32;
  R "Lo" 52 "85e9" 32;
  R "LLo" 53 "1d9f6d" 32;
  R "P" 51 "02aa" 32;
  R "Co" 52 "4fc7" 32;
  R "tz1" 36 "06a19f" 20;
  R "tz2" 36 "06a1a1" 20;
  R "tz3" 36 "06a1a4" 20;
  R "tz4" 36 "06a1a6" 20;
  R "KT1" 36 "025a79" 20;
  R "txr1" 37 "0180781f" 20;
  R "sr1" 36 "067c75" 20;
  R "src1" 54 "11a5868a" 32;
  R "srs1" 54 "11a5ebf0" 32;
  R "srib1" 55 "03ff8a916e" 32;
  R "srib2" 55 "03ff8a918c" 32;
  R "id" 30 "9967" 16;
  R "expr" 54 "0d2c401b" 32;
  R "edsk" 54 "0d0f3a07" 32;
  R "edpk" 54 "0d0f25d9" 32;
  R "spsk" 54 "11a2e0c9" 32;
  R "p2sk" 54 "1051eebd" 32;
  R "edesk" 88 "075a3cb329" 56;
  R "spesk" 88 "09edf1ae96" 56;
  R "p2esk" 88 "09303973ab" 56;
  R "sppk" 55 "03fee256" 33;
  R "p2pk" 55 "03b28b7f" 33;
  R "SSp" 53 "26f888" 32;
  R "GSp" 54 "055c00" 33;
  R "edsk" 98 "2bf64e07" 64;
  R "edsig" 99 "09f5cd8612" 64;
  R "spsig" 99 "0d7365133f" 64;
  R "p2sig" 98 "36f02c34" 64;
  R "sig" 96 "04822b" 64;
  R "Net" 15 "575200" 4;
  R "nce" 53 "45dca9" 32;
  R "btz1" 37 "010231df" 20;
  R "vh" 52 "016af2" 32;
  R "BLsig" 142 "28ab40cf" 96;
  R "BLpk" 76 "069587cc" 48;
  R "BLsk" 54 "0396c028" 32;
  R "BLesk" 88 "02051e3519" 56
].

(* ------------------------------------------------------------------------------------------ *)
(* helpers for the correspondence harness                                                      *)

(* SHA-256 as data for one Base58Check computation (the oracle is an argument of the model, the
   harness supplies what hashlib returned): the implementation hashed [body] to a digest whose
   first bytes are [tag] and that one to a digest starting with [digest]; [body] is identified by
   its length and a polynomial fingerprint (keeps the generated literals small). *)
Definition fp (x : bytes) : N :=
  fold_left (fun a b => ((a * 257 + Byte.to_N b) mod 4294967291)%N) x (N.of_nat (length x)).

Definition sha_data (d : N * bytes * bytes) : bytes -> bytes :=
  let '(f, tag, digest) := d in
  fun x => if (fp x =? f)%N then tag else if bytes_eqb x tag then digest else [].

Definition rows_eqb (a b : list row) : bool := list_eqb row_eqb a b.
