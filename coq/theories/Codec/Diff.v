(* Codec/Diff.v — model of src/pytezos/protocol/diff.py:apply_patch (header skipping, the hunk
   header regex and its fields, start/length arithmetic, the "\ No newline at end of file"
   marker, revert mode), of the unified-diff text an edit script is printed as (what
   make_patch = difflib.unified_diff + the marker produces), and of Protocol.patch
   (src/pytezos/protocol/protocol.py) at the level of (file name, text) lists.
   Texts are byte strings whose only line separator is LF (0x0a); see docs/C30.md.
   No proofs in this file. *)
From Coq Require Import List Arith Bool NArith ZArith Lia Decimal.
From Coq.Strings Require Import Byte.
From PV Require Import Base.Bytes Base.Result.
Import ListNotations.

Definition NL : byte := x0a.
Definition AT : byte := x40.      (* @ *)
Definition BSL : byte := x5c.     (* \ *)
Definition SP : byte := x20.
Definition PLUS : byte := x2b.
Definition MINUS : byte := x2d.
Definition COMMA : byte := x2c.

(* ---------------------------------------------------------------------------------- *)
(* str.splitlines(True) on texts whose only separator is LF                             *)
(* ---------------------------------------------------------------------------------- *)
Fixpoint splitlines (s : bytes) : list bytes :=
  match s with
  | [] => []
  | c :: r =>
      if byte_eqb c NL then [c] :: splitlines r
      else match splitlines r with
           | [] => [[c]]
           | l :: ls => (c :: l) :: ls
           end
  end.

(* ---------------------------------------------------------------------------------- *)
(* small string helpers                                                                  *)
(* ---------------------------------------------------------------------------------- *)
Definition hd_is (c : byte) (l : bytes) : bool :=
  match l with x :: _ => byte_eqb x c | [] => false end.

Fixpoint strip_prefix (p l : bytes) : option bytes :=
  match p with
  | [] => Some l
  | c :: p' => match l with
               | x :: l' => if byte_eqb x c then strip_prefix p' l' else None
               | [] => None
               end
  end.

Definition starts_with (p l : bytes) : bool :=
  match strip_prefix p l with Some _ => true | None => false end.

Definition is_digit (c : byte) : bool :=
  match c with
  | x30 | x31 | x32 | x33 | x34 | x35 | x36 | x37 | x38 | x39 => true
  | _ => false
  end.

(* the maximal run of ASCII digits (regex \d+ / (\d+)? , greedy) and what follows *)
Fixpoint span_digits (l : bytes) : bytes * bytes :=
  match l with
  | c :: r => if is_digit c then let (d, t) := span_digits r in (c :: d, t) else ([], l)
  | [] => ([], [])
  end.

(* int(s) for a string of ASCII digits *)
Fixpoint uint_of_digits (l : bytes) : uint :=
  match l with
  | [] => Nil
  | c :: r =>
      let u := uint_of_digits r in
      match c with
      | x30 => D0 u | x31 => D1 u | x32 => D2 u | x33 => D3 u | x34 => D4 u
      | x35 => D5 u | x36 => D6 u | x37 => D7 u | x38 => D8 u | x39 => D9 u
      | _ => u
      end
  end.
Definition int_of_digits (l : bytes) : N := N.of_uint (uint_of_digits l).

(* one "start,len" field pair:  (\d+),?(\d+)?   -> (group 1, group 2 or None, rest) *)
Definition parse_range (l : bytes) : option (bytes * option bytes * bytes) :=
  let (d1, r1) := span_digits l in
  match d1 with
  | [] => None
  | _ =>
      let r2 := match r1 with c :: r => if byte_eqb c COMMA then r else r1 | [] => r1 end in
      let (d2, r3) := span_digits r2 in
      Some (d1, match d2 with [] => None | _ => Some d2 end, r3)
  end.

Definition s_hdr_open : bytes := [x40; x40; x20; x2d].   (* "@@ -" *)
Definition s_hdr_mid : bytes := [x20; x2b].              (* " +"   *)
Definition s_hdr_close : bytes := [x20; x40; x40].       (* " @@"  *)

(* _hdr_pat = ^@@ -(\d+),?(\d+)? \+(\d+),?(\d+)? @@$   ($ also matches before a final LF) *)
Definition parse_hdr (l : bytes) : option (bytes * option bytes * bytes * option bytes) :=
  match strip_prefix s_hdr_open l with
  | None => None
  | Some r0 =>
      match parse_range r0 with
      | None => None
      | Some (a1, a2, r1) =>
          match strip_prefix s_hdr_mid r1 with
          | None => None
          | Some r2 =>
              match parse_range r2 with
              | None => None
              | Some (b1, b2, r3) =>
                  match strip_prefix s_hdr_close r3 with
                  | None => None
                  | Some r4 =>
                      match r4 with
                      | [] => Some (a1, a2, b1, b2)
                      | [c] => if byte_eqb c NL then Some (a1, a2, b1, b2) else None
                      | _ => None
                      end
                  end
              end
          end
      end
  end.

(* match.group(midx + 1) == '0' *)
Definition is_zero_str (g : option bytes) : bool :=
  match g with Some [c] => byte_eqb c x30 | _ => false end.

(* l = int(match.group(midx)) - 1 + (match.group(midx + 1) == '0') *)
Definition hunk_start (g1 : bytes) (g2 : option bytes) : Z :=
  (Z.of_N (int_of_digits g1) - 1 + (if is_zero_str g2 then 1 else 0))%Z.

(* ---------------------------------------------------------------------------------- *)
(* apply_patch                                                                          *)
(* ---------------------------------------------------------------------------------- *)
Definition s_minus3 : bytes := [x2d; x2d; x2d].
Definition s_plus3 : bytes := [x2b; x2b; x2b].

(* while i < len(patch) and patch[i].startswith(("---", "+++")): i += 1 *)
Fixpoint skip_hdr (patch : list bytes) : list bytes :=
  match patch with
  | p :: r => if starts_with s_minus3 p || starts_with s_plus3 p then skip_hdr r else patch
  | [] => []
  end.

(* the body of the inner loop once [line] is known:
     if len(line) > 0:
         if line[0] == sign or line[0] == ' ': target += line[1:]
         sl += line[0] != sign *)
Definition body_step (sign : byte) (line : bytes) (sl : nat) (target : bytes) : nat * bytes :=
  match line with
  | [] => (sl, target)
  | c :: content =>
      (if byte_eqb c sign then sl else S sl,
       if byte_eqb c sign || byte_eqb c SP then target ++ content else target)
  end.

(* the two nested while loops over the patch lines; [in_hunk] = control is inside the inner loop *)
Fixpoint go (patch : list bytes) (in_hunk : bool) (src : list bytes) (sl : nat) (target : bytes)
            (revert : bool) : result bytes :=
  match patch with
  | [] => Ok (target ++ concat (skipn sl src))
  | p :: rest =>
      if in_hunk && negb (hd_is AT p) then
        let sign := if revert then MINUS else PLUS in
        match rest with
        | q :: rest2 =>
            if hd_is BSL q then
              let (sl', target') := body_step sign (removelast p) sl target in
              go rest2 true src sl' target' revert
            else
              let (sl', target') := body_step sign p sl target in
              go rest true src sl' target' revert
        | [] =>
            let (sl', target') := body_step sign p sl target in
            go rest true src sl' target' revert
        end
      else
        match parse_hdr p with
        | None => Reject                                      (* ValueError: regex mismatch *)
        | Some (a1, a2, b1, b2) =>
            let l := if revert then hunk_start b1 b2 else hunk_start a1 a2 in
            if (Z.of_nat sl >? l)%Z || (l >? Z.of_nat (length src))%Z then Reject   (* ValueError: bad line num *)
            else
              let ln := Z.to_nat l in
              go rest true src ln (target ++ concat (firstn (ln - sl) (skipn sl src))) revert
        end
  end.

Definition apply_lines (src patch : list bytes) (revert : bool) : result bytes :=
  go (skip_hdr patch) false src 0 [] revert.

Definition apply_patch (source patch : bytes) (revert : bool) : result bytes :=
  apply_lines (splitlines source) (splitlines patch) revert.

(* ---------------------------------------------------------------------------------- *)
(* edit scripts and their unified-diff text                                              *)
(* ---------------------------------------------------------------------------------- *)
Inductive tag := TCtx | TDel | TAdd.
Definition tag_byte (t : tag) : byte := match t with TCtx => SP | TDel => MINUS | TAdd => PLUS end.

(* a hunk: the unchanged lines skipped before it, then its tagged lines (lines keep their LF) *)
Record hunk := { gap : list bytes; body : list (tag * bytes) }.
Record script := { hunks : list hunk; tail : list bytes }.

Fixpoint old_lines (b : list (tag * bytes)) : list bytes :=
  match b with
  | [] => []
  | (TAdd, _) :: r => old_lines r
  | (_, l) :: r => l :: old_lines r
  end.
Fixpoint new_lines (b : list (tag * bytes)) : list bytes :=
  match b with
  | [] => []
  | (TDel, _) :: r => new_lines r
  | (_, l) :: r => l :: new_lines r
  end.

(* the lines of the old / new text an edit script goes between *)
Fixpoint old_of_hunks (hs : list hunk) : list bytes :=
  match hs with [] => [] | h :: r => gap h ++ old_lines (body h) ++ old_of_hunks r end.
Fixpoint new_of_hunks (hs : list hunk) : list bytes :=
  match hs with [] => [] | h :: r => gap h ++ new_lines (body h) ++ new_of_hunks r end.
Definition old_of (s : script) : list bytes := old_of_hunks (hunks s) ++ tail s.
Definition new_of (s : script) : list bytes := new_of_hunks (hunks s) ++ tail s.

(* [s] is an edit script from text a to text b *)
Definition valid_script (a b : bytes) (s : script) : Prop :=
  old_of s = splitlines a /\ new_of s = splitlines b.

Fixpoint bytes_of_uint (u : uint) : bytes :=
  match u with
  | Nil => []
  | D0 u => x30 :: bytes_of_uint u | D1 u => x31 :: bytes_of_uint u | D2 u => x32 :: bytes_of_uint u
  | D3 u => x33 :: bytes_of_uint u | D4 u => x34 :: bytes_of_uint u | D5 u => x35 :: bytes_of_uint u
  | D6 u => x36 :: bytes_of_uint u | D7 u => x37 :: bytes_of_uint u | D8 u => x38 :: bytes_of_uint u
  | D9 u => x39 :: bytes_of_uint u
  end.
Definition dec (n : nat) : bytes := bytes_of_uint (N.to_uint (N.of_nat n)).

(* difflib._format_range_unified(start, stop) with start = p, stop = p + len *)
Definition range (p len : nat) : bytes :=
  if len =? 1 then dec (p + 1)
  else if len =? 0 then dec p ++ [COMMA; x30]
  else dec (p + 1) ++ [COMMA] ++ dec len.

Definition marker_line : bytes :=
  [x5c; x20; x4e; x6f; x20; x6e; x65; x77; x6c; x69; x6e; x65; x20; x61; x74; x20; x65; x6e; x64;
   x20; x6f; x66; x20; x66; x69; x6c; x65; x0a].        (* "\ No newline at end of file\n" *)

Fixpoint ends_nl (l : bytes) : bool :=
  match l with [] => false | [c] => byte_eqb c NL | _ :: r => ends_nl r end.

(* make_patch: x if x[-1] == '\n' else x + '\n' + _no_eol + '\n' *)
Definition render_line (tl : tag * bytes) : list bytes :=
  let (t, l) := tl in
  if ends_nl l then [tag_byte t :: l] else [tag_byte t :: l ++ [NL]; marker_line].

Fixpoint render_body (b : list (tag * bytes)) : list bytes :=
  match b with [] => [] | tl :: r => render_line tl ++ render_body r end.

Definition hunk_header (o ol n nl : nat) : bytes :=
  s_hdr_open ++ range o ol ++ s_hdr_mid ++ range n nl ++ s_hdr_close ++ [NL].

(* opos / npos: number of old / new lines before the current point *)
Fixpoint render_hunks (hs : list hunk) (opos npos : nat) : list bytes :=
  match hs with
  | [] => []
  | h :: r =>
      let o := opos + length (gap h) in
      let n := npos + length (gap h) in
      let ol := length (old_lines (body h)) in
      let nl := length (new_lines (body h)) in
      hunk_header o ol n nl :: render_body (body h) ++ render_hunks r (o + ol) (n + nl)
  end.

(* [hdr]: the file header lines ("--- name\n", "+++ name\n"), possibly none *)
Definition render_lines (hdr : list bytes) (s : script) : list bytes := hdr ++ render_hunks (hunks s) 0 0.
Definition render (hdr : list bytes) (s : script) : bytes := concat (render_lines hdr s).

(* a header line: begins with --- or +++, ends with its only LF *)
Fixpoint nl_free (l : bytes) : bool :=
  match l with [] => true | c :: r => negb (byte_eqb c NL) && nl_free r end.
Definition hdr_line (l : bytes) : bool :=
  (starts_with s_minus3 l || starts_with s_plus3 l) && ends_nl l && nl_free (removelast l).

(* ---------------------------------------------------------------------------------- *)
(* Protocol.diff / Protocol.patch on (file name, text) lists                             *)
(* ---------------------------------------------------------------------------------- *)
(* dict(iter(self)).get(name, ''): the last binding wins *)
Fixpoint has_key (name : bytes) (files : list (bytes * bytes)) : bool :=
  match files with
  | [] => false
  | (n, _) :: r => bytes_eqb n name || has_key name r
  end.
Fixpoint lookup (name : bytes) (files : list (bytes * bytes)) : bytes :=
  match files with
  | [] => []
  | (n, t) :: r =>
      if has_key name r then lookup name r
      else if bytes_eqb n name then t else []
  end.

(* Protocol.patch: for filename, diff_text in diff: text = yours.get(filename, '');
   if diff_text: text = apply_patch(text, diff_text) *)
Fixpoint patch_files (yours diff : list (bytes * bytes)) : result (list (bytes * bytes)) :=
  match diff with
  | [] => Ok []
  | (name, d) :: r =>
      let text := lookup name yours in
      let* t := (match d with [] => Ok text | _ => apply_patch text d false end) in
      let* rest := patch_files yours r in
      Ok ((name, t) :: rest)
  end.

(* Protocol.diff: for filename, their_text in theirs: patch = make_patch(yours.get(filename, ''), their_text, filename, ctx)
   with make_patch (difflib) as an oracle *)
Definition diff_files (make_patch : bytes -> bytes -> bytes -> bytes) (yours theirs : list (bytes * bytes))
  : list (bytes * bytes) :=
  map (fun nt => (fst nt, make_patch (fst nt) (lookup (fst nt) yours) (snd nt))) theirs.

(* ---------------------------------------------------------------------------------- *)
(* executable interface for the correspondence cases                                     *)
(* ---------------------------------------------------------------------------------- *)
Definition rbytes_eqb : result bytes -> result bytes -> bool := result_eqb bytes_eqb.
Definition lines_eqb : list bytes -> list bytes -> bool := list_eqb bytes_eqb.

Definition apply_case (c : bytes * bytes * bool) : result bytes :=
  let '(src, patch, rv) := c in apply_patch src patch rv.

(* is [patch] the text of the edit script [s] from a to b (with file header [hdr])? *)
Definition check_script (c : bytes * bytes * bytes * list bytes * script) : bool :=
  let '(a, b, patch, hdr, s) := c in
  lines_eqb (old_of s) (splitlines a) && lines_eqb (new_of s) (splitlines b) &&
  bytes_eqb (render hdr s) patch && forallb hdr_line hdr.

Definition files_eqb : result (list (bytes * bytes)) -> result (list (bytes * bytes)) -> bool :=
  result_eqb (list_eqb (prod_eqb bytes_eqb bytes_eqb)).
Definition patch_case (c : list (bytes * bytes) * list (bytes * bytes)) : result (list (bytes * bytes)) :=
  patch_files (fst c) (snd c).

Definition mkh (g : list bytes) (b : list (tag * bytes)) : hunk := {| gap := g; body := b |}.
Definition mks (hs : list hunk) (t : list bytes) : script := {| hunks := hs; tail := t |}.

(* compact byte-string literals for the generated cases: consecutive pieces of at most 256 bytes, each
   written as the number int.from_bytes(piece + b'\x01', 'little') (hex positive literal). Decoding is a
   bit walk; [Base.Bytes.hx] costs a division per byte. *)
Definition mkbyte (l : list bool) : byte :=
  match l with
  | [b7; b6; b5; b4; b3; b2; b1; b0] => Byte.of_bits (b0, (b1, (b2, (b3, (b4, (b5, (b6, b7)))))))
  | _ => x00
  end.
Fixpoint bop (p : positive) (cur : list bool) (k : nat) : bytes :=
  match p with
  | xH => []
  | xO q => match k with 7 => mkbyte (false :: cur) :: bop q [] 0 | _ => bop q (false :: cur) (S k) end
  | xI q => match k with 7 => mkbyte (true :: cur) :: bop q [] 0 | _ => bop q (true :: cur) (S k) end
  end.
Definition bp (l : list positive) : bytes := List.concat (map (fun p => bop p [] 0) l).

(* one generated case of any of the three streams, with the implementation's answer *)
Inductive dcase :=
| DApply (src patch : bytes) (rv : bool) (expect : result bytes)
| DScript (a b patch : bytes) (hdr : list bytes) (s : script)
| DProto (yours diff : list (bytes * bytes)) (expect : result (list (bytes * bytes))).
Definition dcheck (c : dcase) : bool :=
  match c with
  | DApply src patch rv x => rbytes_eqb (apply_patch src patch rv) x
  | DScript a b patch hdr s => check_script (a, b, patch, hdr, s)
  | DProto y d x => files_eqb (patch_files y d) x
  end.
