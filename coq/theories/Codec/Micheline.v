(* Codec/Micheline.v — Micheline trees shared by every model that touches
   Michelson expressions. Primitives are identified by their binary tag (the table
   name <-> tag lives in Codec/Prims.v and is compared with /repo's tags.py on every run).
   Strings and annotations are ASCII byte strings. *)
From Coq Require Import List ZArith Bool Lia.
From Coq.Strings Require Import Byte.
From PV Require Import Base.Bytes.
Import ListNotations.

Inductive node : Type :=
| NInt (z : Z)
| NStr (s : bytes)
| NByt (b : bytes)
| NPrim (tag : byte) (args : list node) (annots : list bytes)
| NSeq (items : list node).

(* Induction principle with access to the induction hypothesis for every child. *)
Section NodeInd.
  Variable P : node -> Prop.
  Hypothesis HInt : forall z, P (NInt z).
  Hypothesis HStr : forall s, P (NStr s).
  Hypothesis HByt : forall b, P (NByt b).
  Hypothesis HPrim : forall tag args annots, Forall P args -> P (NPrim tag args annots).
  Hypothesis HSeq : forall items, Forall P items -> P (NSeq items).

  Fixpoint node_ind' (n : node) : P n :=
    match n with
    | NInt z => HInt z
    | NStr s => HStr s
    | NByt b => HByt b
    | NPrim tag args annots =>
        HPrim tag args annots
          ((fix go (l : list node) : Forall P l :=
              match l with
              | [] => Forall_nil P
              | x :: r => Forall_cons x (node_ind' x) (go r)
              end) args)
    | NSeq items =>
        HSeq items
          ((fix go (l : list node) : Forall P l :=
              match l with
              | [] => Forall_nil P
              | x :: r => Forall_cons x (node_ind' x) (go r)
              end) items)
    end.
End NodeInd.

Fixpoint node_eqb (a b : node) {struct a} : bool :=
  match a, b with
  | NInt x, NInt y => Z.eqb x y
  | NStr x, NStr y => bytes_eqb x y
  | NByt x, NByt y => bytes_eqb x y
  | NPrim t1 a1 n1, NPrim t2 a2 n2 =>
      byte_eqb t1 t2 &&
      (fix go (l1 l2 : list node) : bool :=
         match l1, l2 with
         | [], [] => true
         | x :: r1, y :: r2 => node_eqb x y && go r1 r2
         | _, _ => false
         end) a1 a2 &&
      list_eqb bytes_eqb n1 n2
  | NSeq l1, NSeq l2 =>
      (fix go (l1 l2 : list node) : bool :=
         match l1, l2 with
         | [], [] => true
         | x :: r1, y :: r2 => node_eqb x y && go r1 r2
         | _, _ => false
         end) l1 l2
  | _, _ => false
  end.

Lemma node_eqb_spec : forall a b, node_eqb a b = true <-> a = b.
Proof.
  induction a as [z|s|s|tag args annots IH|items IH] using node_ind'; intros b; destruct b;
    simpl; try (split; [discriminate | intros; discriminate]).
  - rewrite Z.eqb_eq. split; [intros ->; reflexivity | intros [= ->]; reflexivity].
  - rewrite bytes_eqb_spec. split; [intros ->; reflexivity | intros [= ->]; reflexivity].
  - rewrite bytes_eqb_spec. split; [intros ->; reflexivity | intros [= ->]; reflexivity].
  - rewrite !andb_true_iff, byte_eqb_spec, (list_eqb_spec bytes_eqb bytes_eqb_spec).
    assert (Hgo : forall l2,
      (fix go (l1 l2 : list node) : bool :=
         match l1, l2 with
         | [], [] => true
         | x :: r1, y :: r2 => node_eqb x y && go r1 r2
         | _, _ => false
         end) args l2 = true <-> args = l2).
    { induction IH as [|x r Hx Hr IHr]; intros [|y l2]; split; intro E;
        try reflexivity; try discriminate.
      - apply andb_true_iff in E. destruct E as [E1 E2]. apply Hx in E1. apply IHr in E2.
        subst. reflexivity.
      - injection E as <- <-. apply andb_true_iff. split; [apply Hx | apply IHr]; reflexivity. }
    rewrite Hgo. split.
    + intros [[-> ->] ->]. reflexivity.
    + intros [= -> -> ->]. auto.
  - assert (Hgo : forall l2,
      (fix go (l1 l2 : list node) : bool :=
         match l1, l2 with
         | [], [] => true
         | x :: r1, y :: r2 => node_eqb x y && go r1 r2
         | _, _ => false
         end) items l2 = true <-> items = l2).
    { induction IH as [|x r Hx Hr IHr]; intros [|y l2]; split; intro E;
        try reflexivity; try discriminate.
      - apply andb_true_iff in E. destruct E as [E1 E2]. apply Hx in E1. apply IHr in E2.
        subst. reflexivity.
      - injection E as <- <-. apply andb_true_iff. split; [apply Hx | apply IHr]; reflexivity. }
    rewrite Hgo. split; [intros ->; reflexivity | intros [= ->]; reflexivity].
Qed.

(* number of constructors, a convenient measure *)
Fixpoint node_size (n : node) : nat :=
  match n with
  | NPrim _ args _ => S (fold_right (fun x acc => node_size x + acc) 0 args)
  | NSeq items => S (fold_right (fun x acc => node_size x + acc) 0 items)
  | _ => 1
  end.
