(* Codec/Parser.v — model of MichelsonParser (/repo/src/pytezos/michelson/parse.py:70-232): the PLY
   LALR(1) grammar

     instr : expr | empty | INT | BYTE | STR | instr SEMI instr | LEFT_CURLY instr RIGHT_CURLY
     expr  : PRIM annots args
     annots: annot | empty | annots annot            annot : ANNOT
     args  : arg | empty | args arg
     arg   : PRIM | INT | BYTE | STR | LEFT_CURLY instr RIGHT_CURLY | LEFT_PAREN expr RIGHT_PAREN

   with its eight shift/reduce conflicts resolved as shifts (annotations and arguments are taken
   greedily, [instr SEMI instr] associates to the right), written as a recursive-descent parser, and
   the semantic actions (the flattening of [instr SEMI instr] into one plain list, empty instructions
   dropped, json.loads on strings, the prim_tags lookup).  Macro expansion (a PRIM that is not in
   prim_tags) is C19's subject: here such a name makes the result [TUnsupported].

   [parse_text] is michelson_to_micheline: strip one pair of outer parentheses, lex, parse.

   No proofs here (Proofs/Parser_proofs.v). *)
From Coq Require Import List NArith ZArith Bool Decimal DecimalN.
From Coq.Strings Require Import Byte.
From PV Require Import Base.Bytes Codec.Micheline Codec.Printer Codec.Lexer.
Import ListNotations.
Local Open Scope list_scope.

(* ------------------------------------------------------------------------------------------ *)
(* Syntax: tokens -> named expression                                                          *)
(* ------------------------------------------------------------------------------------------ *)
Inductive pr (A : Type) : Type :=
| POk (a : A) (rest : list token)
| PErr
| PFuel.
Arguments POk {A} a rest.
Arguments PErr {A}.
Arguments PFuel {A}.

Definition pr_map {A B} (f : A -> B) (r : pr A) : pr B :=
  match r with POk a rest => POk (f a) rest | PErr => PErr | PFuel => PFuel end.

(* annots: the ANNOT tokens that follow the primitive, all of them *)
Fixpoint span_annots (ts : list token) : list bytes * list token :=
  match ts with
  | TAnnot a :: r => let '(l, r') := span_annots r in (a :: l, r')
  | _ => ([], ts)
  end.

(* expr after its PRIM token: annotations, then arguments *)
Definition expr_tail (pargs : list token -> pr (list pnode)) (name : bytes) (ts : list token) : pr pnode :=
  let '(annots, ts') := span_annots ts in
  pr_map (PPrim name annots) (pargs ts').

Definition opt_cons {A} (o : option A) (l : list A) : list A :=
  match o with Some x => x :: l | None => l end.

(* what follows one (possibly empty) instruction: SEMI and more instructions, or the end of this
   instruction list.  The boolean tells whether a SEMI was seen (p_instr_list ran: the value is a
   plain list even with fewer than two elements). *)
Definition after_item (pitems : list token -> pr (list pnode * bool)) (it : option pnode)
           (rest : list token) : pr (list pnode * bool) :=
  match rest with
  | TSemi :: rest' => pr_map (fun '(its, _) => (opt_cons it its, true)) (pitems rest')
  | _ => POk (opt_cons it [], false) rest
  end.

(* LEFT_CURLY instr RIGHT_CURLY, after the LEFT_CURLY *)
Definition braced (pitems : list token -> pr (list pnode * bool)) (ts : list token) : pr pnode :=
  match pitems ts with
  | POk (its, _) (TRCurly :: rest) => POk (PSeq its) rest
  | POk _ _ => PErr
  | PErr => PErr
  | PFuel => PFuel
  end.

Fixpoint parse_items (n : nat) (ts : list token) {struct n} : pr (list pnode * bool) :=
  match n with
  | O => PFuel
  | S n =>
      match ts with
      | TInt r :: rest => after_item (parse_items n) (Some (PInt r)) rest
      | TByt r :: rest => after_item (parse_items n) (Some (PByt r)) rest
      | TStr r :: rest => after_item (parse_items n) (Some (PStr r)) rest
      | TLCurly :: rest =>
          match braced (parse_items n) rest with
          | POk s rest' => after_item (parse_items n) (Some s) rest'
          | PErr => PErr
          | PFuel => PFuel
          end
      | TPrim name :: rest =>
          match expr_tail (parse_args n) name rest with
          | POk e rest' => after_item (parse_items n) (Some e) rest'
          | PErr => PErr
          | PFuel => PFuel
          end
      | _ => after_item (parse_items n) None ts
      end
  end
with parse_args (n : nat) (ts : list token) {struct n} : pr (list pnode) :=
  match n with
  | O => PFuel
  | S n =>
      match ts with
      | TPrim name :: rest => pr_map (cons (PPrim name [] [])) (parse_args n rest)
      | TInt r :: rest => pr_map (cons (PInt r)) (parse_args n rest)
      | TByt r :: rest => pr_map (cons (PByt r)) (parse_args n rest)
      | TStr r :: rest => pr_map (cons (PStr r)) (parse_args n rest)
      | TLCurly :: rest =>
          match braced (parse_items n) rest with
          | POk s rest' => pr_map (cons s) (parse_args n rest')
          | PErr => PErr
          | PFuel => PFuel
          end
      | TLParen :: TPrim name :: rest =>
          match expr_tail (parse_args n) name rest with
          | POk e (TRParen :: rest') => pr_map (cons e) (parse_args n rest')
          | POk _ _ => PErr
          | PErr => PErr
          | PFuel => PFuel
          end
      | TLParen :: _ => PErr
      | _ => POk [] ts
      end
  end.

Inductive top (A : Type) : Type :=
| TopSome (a : A)          (* an expression *)
| TopNone                  (* the empty program: PLY returns None *)
| TopErr                   (* syntax error *)
| TopFuel.                 (* never (Proofs/Parser_proofs.v: parse_top_no_fuel) *)
Arguments TopSome {A} a.
Arguments TopNone {A}.
Arguments TopErr {A}.
Arguments TopFuel {A}.

(* the start symbol is instr; every token must be consumed *)
Definition parse_top (ts : list token) : top pnode :=
  match parse_items (S (length ts)) ts with
  | POk (its, semi) [] =>
      if semi then TopSome (PSeq its)
      else match its with
           | [] => TopNone
           | [x] => TopSome x
           | _ => TopErr
           end
  | POk _ (_ :: _) => TopErr
  | PErr => TopErr
  | PFuel => TopFuel
  end.

(* ------------------------------------------------------------------------------------------ *)
(* Semantic values: literal texts and names -> Micheline                                       *)
(* ------------------------------------------------------------------------------------------ *)
Inductive rres (A : Type) : Type :=
| ROk (a : A)
| RRej                     (* Python raises *)
| RUns.                    (* outside the model: macro / helper word, odd number of hex digits,
                              a \u escape above 00ff *)
Arguments ROk {A} a.
Arguments RRej {A}.
Arguments RUns {A}.

(* a rejection anywhere wins over an unsupported part *)
Definition rcons {A} (x : rres A) (l : rres (list A)) : rres (list A) :=
  match x, l with
  | RRej, _ | _, RRej => RRej
  | RUns, _ | _, RUns => RUns
  | ROk a, ROk l' => ROk (a :: l')
  end.

Fixpoint bytes_uint (d : bytes) : Decimal.uint :=
  match d with
  | [] => Nil
  | c :: r =>
      match Byte.to_N c with
      | 48%N => D0 (bytes_uint r) | 49%N => D1 (bytes_uint r) | 50%N => D2 (bytes_uint r)
      | 51%N => D3 (bytes_uint r) | 52%N => D4 (bytes_uint r) | 53%N => D5 (bytes_uint r)
      | 54%N => D6 (bytes_uint r) | 55%N => D7 (bytes_uint r) | 56%N => D8 (bytes_uint r)
      | 57%N => D9 (bytes_uint r)
      | _ => Nil
      end
  end.

(* int(text) *)
Definition Z_of_dec (raw : bytes) : Z :=
  match raw with
  | c :: d => if byte_eqb c c_minus then Z.opp (Z.of_N (N.of_uint (bytes_uint d)))
              else Z.of_N (N.of_uint (bytes_uint raw))
  | [] => 0%Z
  end.

Definition hex_val (c : byte) : option N :=
  let n := Byte.to_N c in
  if is_digit c then Some (n - 48)%N
  else if in_range 97 102 c then Some (n - 87)%N
  else if in_range 65 70 c then Some (n - 55)%N
  else None.

Fixpoint unhex (r : bytes) : option bytes :=
  match r with
  | [] => Some []
  | a :: b :: r' =>
      match hex_val a, hex_val b, unhex r' with
      | Some x, Some y, Some l => Some (b8 (16 * x + y) :: l)
      | _, _, _ => None
      end
  | [_] => None
  end.

(* the one-character escapes of JSON *)
Definition simple_escape (d : byte) : option byte :=
  if byte_eqb d c_quote then Some c_quote
  else if byte_eqb d c_bslash then Some c_bslash
  else if byte_eqb d c_slash then Some c_slash
  else if byte_eqb d x62 then Some x08
  else if byte_eqb d x66 then Some c_ff
  else if byte_eqb d x6e then Some c_lf
  else if byte_eqb d x72 then Some c_cr
  else if byte_eqb d x74 then Some c_tab
  else None.

(* json.loads of QUOTE raw QUOTE (strict): a bare quote inside (extra data), a control character,
   an unknown escape or a truncated one are errors; \uXXXX needs four hex digits *)
Fixpoint json_unescape (r : bytes) : rres bytes :=
  match r with
  | [] => ROk []
  | c :: r1 =>
      if byte_eqb c c_quote then RRej
      else if byte_eqb c c_bslash then
        match r1 with
        | [] => RRej
        | d :: r2 =>
            if byte_eqb d c_u then
              match r2 with
              | h1 :: h2 :: h3 :: h4 :: r3 =>
                  match hex_val h1, hex_val h2, hex_val h3, hex_val h4 with
                  | Some a, Some b, Some e, Some f =>
                      if ((a =? 0) && (b =? 0))%N then rcons (ROk (b8 (16 * e + f))) (json_unescape r3)
                      else rcons RUns (json_unescape r3)
                  | _, _, _, _ => RRej
                  end
              | _ => RRej
              end
            else match simple_escape d with
                 | Some x => rcons (ROk x) (json_unescape r2)
                 | None => RRej
                 end
        end
      else if (Byte.to_N c <? 32)%N then RRej
      else rcons (ROk c) (json_unescape r1)
  end.

Fixpoint resolve (p : pnode) : rres node :=
  match p with
  | PInt r => ROk (NInt (Z_of_dec r))
  | PStr r => match json_unescape r with ROk s => ROk (NStr s) | RRej => RRej | RUns => RUns end
  | PByt r => match unhex r with Some b => ROk (NByt b) | None => RUns end
  | PPrim n annots args =>
      let rargs := (fix go (l : list pnode) : rres (list node) :=
                      match l with [] => ROk [] | x :: r => rcons (resolve x) (go r) end) args in
      match tag_of_name n, rargs with
      | Some t, ROk a => ROk (NPrim t a annots)
      | _, RRej => RRej
      | _, _ => RUns
      end
  | PSeq items =>
      match (fix go (l : list pnode) : rres (list node) :=
               match l with [] => ROk [] | x :: r => rcons (resolve x) (go r) end) items with
      | ROk l => ROk (NSeq l)
      | RRej => RRej
      | RUns => RUns
      end
  end.

(* ------------------------------------------------------------------------------------------ *)
(* michelson_to_micheline                                                                      *)
(* ------------------------------------------------------------------------------------------ *)
Inductive tres : Type :=
| TNode (e : node)
| TEmpty                   (* None *)
| TReject                  (* an exception *)
| TUnsupported
| TOutOfFuel.

(* if len(code) > 0 and code[0] == '(' and code[-1] == ')': code = code[1:-1] *)
Definition strip_parens (s : bytes) : bytes :=
  match s with
  | c :: r =>
      if byte_eqb c c_lparen then
        match List.rev r with
        | l :: m => if byte_eqb l c_rparen then List.rev m else s
        | [] => s
        end
      else s
  | [] => s
  end.

Definition parse_tokens (ts : list token) : tres :=
  match parse_top ts with
  | TopSome p =>
      match resolve p with
      | ROk e => TNode e
      | RRej => TReject
      | RUns => TUnsupported
      end
  | TopNone => TEmpty
  | TopErr => TReject
  | TopFuel => TOutOfFuel
  end.

Definition parse_text (s : bytes) : tres :=
  match lex (strip_parens s) with
  | LexOk ts => parse_tokens ts
  | LexErr => TReject
  | LexFuel => TOutOfFuel
  end.

Definition tres_eqb (a b : tres) : bool :=
  match a, b with
  | TNode x, TNode y => node_eqb x y
  | TEmpty, TEmpty | TReject, TReject | TUnsupported, TUnsupported | TOutOfFuel, TOutOfFuel => true
  | _, _ => false
  end.

(* comparison used by the harness: an [TUnsupported] model answer matches anything *)
Definition tres_agree (model impl : tres) : bool :=
  match model with
  | TUnsupported => true
  | _ => tres_eqb model impl
  end.
