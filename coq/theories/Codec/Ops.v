(* Codec/Ops.v — operation groups and their binary form (C06).

   Three things live here (definitions only, lemmas in Proofs/Ops_proofs.v):

   1. Data: the content kinds pytezos can forge locally (src/pytezos/operation/forge.py), with fields
      modelled generically: hashes as bytes, zarith numbers as N, Micheline expressions (parameters,
      scripts, constants, ticket contents/types) as their already forged bytes, entrypoints by name.

   2. SPEC — the protocol's operation encoding, written the way the protocol writes it (data-encoding
      combinators): a [codec] per field type, composed per kind, dispatched on the operation tag;
      encoder and decoder come from the same description.
        tags: endorsement(legacy) 0, activate_account 4, failing_noop 17, reveal 107, transaction 108,
              origination 109, delegation 110, register_global_constant 111, transfer_ticket 158,
              smart_rollup_add_messages 201, smart_rollup_execute_outbox_message 206
        manager header: source = 21-byte public_key_hash (curve tag + 20), fee, counter, gas_limit,
              storage_limit as zarith naturals
        destination / ticketer: 22 bytes: 00 curve hash | 01 hash 00 | 03 hash 00
        entrypoint (transaction): tags 0..9 for default, root, do, set_delegate, remove_delegate, deposit,
              stake, unstake, finalize_unstake, set_delegate_parameters; otherwise ff len name
        parameters: omitted (flag 00) iff entrypoint default and value Unit (03 0b); else ff entrypoint dyn(value)
        options: 00 / ff x;  dynamic fields: 4-byte big-endian length

   3. PY — a direct transcription of the per-kind forgers of forge.py (flat concatenations, Python's
      [reserved_entrypoints] table, has_parameters), compared with the real code on every run.

   Theorems (Properties/C06.v): dec (enc g) = normalise g, injectivity, PY = SPEC. *)
From Coq.Strings Require Import Byte String.
From Coq Require Import List NArith ZArith Bool Arith.
From PV Require Import Base.Bytes Codec.Zarith.
Import ListNotations.
Local Open Scope N_scope.

(* ================================================================ data *)

Inductive kcurve := KEd | KSp | KP2 | KBl.                 (* tz1/edpk, tz2/sppk, tz3/p2pk, tz4/BLpk *)

Definition pkh := (kcurve * bytes)%type.                   (* public key hash: curve, 20 bytes *)
Definition pubkey := (kcurve * bytes)%type.                (* 32 / 33 / 33 / 48 bytes *)

Inductive address :=
| AImplicit (k : pkh)
| AOriginated (h : bytes)                                  (* KT1, 20 bytes *)
| ARollup (h : bytes).                                     (* sr1, 20 bytes *)

Record header := { source : pkh; fee : N; counter : N; gas_limit : N; storage_limit : N }.

Inductive manager_op :=
| MReveal (pk : pubkey) (proof : option bytes)
| MTransaction (amount : N) (dest : address) (params : option (bytes * bytes))  (* entrypoint name, forged value *)
| MOrigination (balance : N) (delegate : option pkh) (code storage : bytes)
| MDelegation (delegate : option pkh)
| MRegisterGlobalConstant (value : bytes)
| MTransferTicket (contents ty : bytes) (ticketer : address) (amount : N) (dest : address) (entrypoint : bytes)
| MSrAddMessages (msgs : list bytes)
| MSrExecuteOutbox (rollup commitment proof : bytes).

Inductive content :=
| CEndorsement (level : N)                                 (* legacy consensus content: tag 0, int32 level *)
| CActivate (pkh20 secret : bytes)
| CFailingNoop (arbitrary : bytes)
| CManager (h : header) (op : manager_op).

Record group := { branch : bytes; contents : list content }.

(* ================================================================ tables (compared with /repo on every run) *)

Definition operation_tags : list (string * N) :=
  [("endorsement", 0); ("activate_account", 4); ("failing_noop", 17); ("reveal", 107); ("transaction", 108);
   ("origination", 109); ("delegation", 110); ("register_global_constant", 111); ("transfer_ticket", 158);
   ("smart_rollup_add_messages", 201); ("smart_rollup_execute_outbox_message", 206)]%string.

(* the protocol's entrypoint tags *)
Definition spec_reserved : list (string * N) :=
  [("default", 0); ("root", 1); ("do", 2); ("set_delegate", 3); ("remove_delegate", 4); ("deposit", 5);
   ("stake", 6); ("unstake", 7); ("finalize_unstake", 8); ("set_delegate_parameters", 9)]%string.

(* forge.py: reserved_entrypoints *)
Definition py_reserved : list (string * N) :=
  [("default", 0); ("root", 1); ("do", 2); ("set_delegate", 3); ("remove_delegate", 4); ("deposit", 5);
   ("stake", 6); ("unstake", 7); ("finalize_unstake", 8); ("set_delegate_parameters", 9)]%string.

Fixpoint find_name (tbl : list (string * N)) (name : bytes) : option N :=
  match tbl with
  | [] => None
  | (s, t) :: r => if bytes_eqb (tx s) name then Some t else find_name r name
  end.

Fixpoint find_tag (tbl : list (string * N)) (t : N) : option bytes :=
  match tbl with
  | [] => None
  | (s, t') :: r => if t' =? t then Some (tx s) else find_tag r t
  end.

Definition unit_value : bytes := [x03; x0b].               (* forge_micheline({'prim': 'Unit'}) *)
Definition default_name : bytes := tx "default".

(* ================================================================ SPEC: codecs *)

Record codec (A : Type) := mk_codec {
  enc : A -> bytes;
  dec : bytes -> option (A * bytes);
  wf : A -> Prop
}.
Arguments mk_codec {A}. Arguments enc {A}. Arguments dec {A}. Arguments wf {A}.

Definition omap {A B} (f : A -> B) (o : option (A * bytes)) : option (B * bytes) :=
  match o with Some (a, r) => Some (f a, r) | None => None end.

Definition nlength (b : bytes) : N := N.of_nat (length b).

(* split off exactly n bytes *)
Definition take (n : nat) (bs : bytes) : option (bytes * bytes) :=
  if (length bs <? n)%nat then None else Some (firstn n bs, skipn n bs).

Definition c_fix (n : nat) : codec bytes :=
  mk_codec (fun b => b) (take n) (fun b => length b = n).

Definition c_nat : codec N := mk_codec enc_nat dec_nat (fun _ => True).

(* unsigned big-endian integer of fixed width (int32 level) *)
Definition c_uint (w : nat) : codec N :=
  mk_codec (N_to_be w) (fun bs => omap be_to_N (take w bs)) (fun n => n < 256 ^ N.of_nat w).

Definition two32 : N := 4294967296.

Definition dec_dyn (bs : bytes) : option (bytes * bytes) :=
  match take 4 bs with
  | None => None
  | Some (l, r) =>
      let n := be_to_N l in
      if nlength r <? n then None else Some (firstn (N.to_nat n) r, skipn (N.to_nat n) r)
  end.

Definition enc_dyn (b : bytes) : bytes := N_to_be 4 (nlength b) ++ b.

Definition c_dyn : codec bytes := mk_codec enc_dyn dec_dyn (fun b => nlength b < two32).

Definition c_opt {A} (c : codec A) : codec (option A) :=
  mk_codec (fun o => match o with None => [x00] | Some a => xff :: enc c a end)
           (fun bs => match bs with
                      | x00 :: r => Some (None, r)
                      | xff :: r => omap Some (dec c r)
                      | _ => None
                      end)
           (fun o => match o with None => True | Some a => wf c a end).

Definition c_pair {A B} (ca : codec A) (cb : codec B) : codec (A * B) :=
  mk_codec (fun p => enc ca (fst p) ++ enc cb (snd p))
           (fun bs => match dec ca bs with
                      | Some (a, r) => omap (fun b => (a, b)) (dec cb r)
                      | None => None
                      end)
           (fun p => wf ca (fst p) /\ wf cb (snd p)).

Definition c_map {A B} (to : B -> A) (from : A -> B) (c : codec A) : codec B :=
  mk_codec (fun b => enc c (to b)) (fun bs => omap from (dec c bs)) (fun b => wf c (to b)).

Definition curve_tag (k : kcurve) : N := match k with KEd => 0 | KSp => 1 | KP2 => 2 | KBl => 3 end.
Definition curve_of_tag (t : N) : option kcurve :=
  match t with 0 => Some KEd | 1 => Some KSp | 2 => Some KP2 | 3 => Some KBl | _ => None end.

Definition c_pkh : codec pkh :=
  mk_codec (fun k => b8 (curve_tag (fst k)) :: snd k)
           (fun bs => match bs with
                      | t :: r => match curve_of_tag (Byte.to_N t) with
                                  | Some k => omap (fun h => (k, h)) (take 20 r)
                                  | None => None
                                  end
                      | [] => None
                      end)
           (fun k => length (snd k) = 20%nat).

Definition pk_len (k : kcurve) : nat := match k with KEd => 32 | KSp => 33 | KP2 => 33 | KBl => 48 end.

Definition c_pk : codec pubkey :=
  mk_codec (fun k => b8 (curve_tag (fst k)) :: snd k)
           (fun bs => match bs with
                      | t :: r => match curve_of_tag (Byte.to_N t) with
                                  | Some k => omap (fun h => (k, h)) (take (pk_len k) r)
                                  | None => None
                                  end
                      | [] => None
                      end)
           (fun k => length (snd k) = pk_len (fst k)).

Definition wf_address (a : address) : Prop :=
  match a with
  | AImplicit k => length (snd k) = 20%nat
  | AOriginated h => length h = 20%nat
  | ARollup h => length h = 20%nat
  end.

Definition c_address : codec address :=
  mk_codec (fun a => match a with
                     | AImplicit k => x00 :: enc c_pkh k
                     | AOriginated h => x01 :: h ++ [x00]
                     | ARollup h => x03 :: h ++ [x00]
                     end)
           (fun bs => match bs with
                      | x00 :: r => omap AImplicit (dec c_pkh r)
                      | x01 :: r => match take 20 r with
                                    | Some (h, x00 :: r') => Some (AOriginated h, r')
                                    | _ => None
                                    end
                      | x03 :: r => match take 20 r with
                                    | Some (h, x00 :: r') => Some (ARollup h, r')
                                    | _ => None
                                    end
                      | _ => None
                      end)
           wf_address.

(* entrypoint of a transaction, by name *)
Definition enc_entrypoint (tbl : list (string * N)) (name : bytes) : bytes :=
  match find_name tbl name with
  | Some t => [b8 t]
  | None => xff :: b8 (nlength name) :: name
  end.

(* strict: a reserved name must use its tag, names have 1..31 bytes *)
Definition dec_entrypoint (tbl : list (string * N)) (bs : bytes) : option (bytes * bytes) :=
  match bs with
  | xff :: l :: r =>
      match take (N.to_nat (Byte.to_N l)) r with
      | Some (name, r') =>
          match find_name tbl name with
          | Some _ => None
          | None => if (1 <=? length name)%nat && (length name <=? 31)%nat then Some (name, r') else None
          end
      | None => None
      end
  | t :: r => match find_tag tbl (Byte.to_N t) with Some name => Some (name, r) | None => None end
  | [] => None
  end.

Definition c_entrypoint : codec bytes :=
  mk_codec (enc_entrypoint spec_reserved) (dec_entrypoint spec_reserved)
           (fun name => (1 <= length name <= 31)%nat).

(* a sequence of elements decoded until the buffer is exhausted *)
Fixpoint dec_many {A} (d : bytes -> option (A * bytes)) (fuel : nat) (bs : bytes) : option (list A) :=
  match bs with
  | [] => Some []
  | _ :: _ =>
      match fuel with
      | O => None
      | S f => match d bs with
               | Some (a, r) => match dec_many d f r with Some l => Some (a :: l) | None => None end
               | None => None
               end
      end
  end.

Definition enc_msgs (l : list bytes) : bytes := enc_dyn (concat (map enc_dyn l)).
Definition dec_msgs (bs : bytes) : option (list bytes * bytes) :=
  match dec_dyn bs with
  | Some (blob, r) => match dec_many dec_dyn (length blob) blob with Some l => Some (l, r) | None => None end
  | None => None
  end.
Definition c_msgs : codec (list bytes) :=
  mk_codec enc_msgs dec_msgs
           (fun l => Forall (fun m => nlength m < two32) l /\ nlength (concat (map enc_dyn l)) < two32).

(* ---------------------------------------------------------------- per kind *)

Definition c_header : codec header :=
  c_map (fun h => (source h, (fee h, (counter h, (gas_limit h, storage_limit h)))))
        (fun t => {| source := fst t; fee := fst (snd t); counter := fst (snd (snd t));
                     gas_limit := fst (snd (snd (snd t))); storage_limit := snd (snd (snd (snd t))) |})
        (c_pair c_pkh (c_pair c_nat (c_pair c_nat (c_pair c_nat c_nat)))).

Definition c_reveal := c_pair c_pk (c_opt c_dyn).
Definition c_params := c_opt (c_pair c_entrypoint c_dyn).
Definition c_transaction := c_pair c_nat (c_pair c_address c_params).
Definition c_origination := c_pair c_nat (c_pair (c_opt c_pkh) (c_pair c_dyn c_dyn)).
Definition c_delegation := c_opt c_pkh.
Definition c_register := c_dyn.
Definition c_transfer_ticket :=
  c_pair c_dyn (c_pair c_dyn (c_pair c_address (c_pair c_nat (c_pair c_address c_dyn)))).
Definition c_sr_execute := c_pair (c_fix 20) (c_pair (c_fix 32) c_dyn).
Definition c_activate := c_pair (c_fix 20) (c_fix 20).

(* normalisation: explicit default/Unit parameters are the same operation as no parameters *)
Definition norm_params (p : option (bytes * bytes)) : option (bytes * bytes) :=
  match p with
  | Some (ep, v) => if bytes_eqb ep default_name && bytes_eqb v unit_value then None else p
  | None => None
  end.

Definition mop_tag (op : manager_op) : N :=
  match op with
  | MReveal _ _ => 107 | MTransaction _ _ _ => 108 | MOrigination _ _ _ _ => 109 | MDelegation _ => 110
  | MRegisterGlobalConstant _ => 111 | MTransferTicket _ _ _ _ _ _ => 158
  | MSrAddMessages _ => 201 | MSrExecuteOutbox _ _ _ => 206
  end.

Definition enc_mop (op : manager_op) : bytes :=
  match op with
  | MReveal pk pr => enc c_reveal (pk, pr)
  | MTransaction a d p => enc c_transaction (a, (d, p))
  | MOrigination b dl c s => enc c_origination (b, (dl, (c, s)))
  | MDelegation dl => enc c_delegation dl
  | MRegisterGlobalConstant v => enc c_register v
  | MTransferTicket c t tk a d e => enc c_transfer_ticket (c, (t, (tk, (a, (d, e)))))
  | MSrAddMessages ms => enc c_msgs ms
  | MSrExecuteOutbox r c p => enc c_sr_execute (r, (c, p))
  end.

Definition dec_mop (tag : N) (bs : bytes) : option (manager_op * bytes) :=
  match tag with
  | 107 => omap (fun t => MReveal (fst t) (snd t)) (dec c_reveal bs)
  | 108 => match dec c_transaction bs with
           | Some (t, r) =>
               (* strict: explicit (default, Unit) parameters are not canonical *)
               match norm_params (snd (snd t)), snd (snd t) with
               | None, Some _ => None
               | _, _ => Some (MTransaction (fst t) (fst (snd t)) (snd (snd t)), r)
               end
           | None => None
           end
  | 109 => omap (fun t => MOrigination (fst t) (fst (snd t)) (fst (snd (snd t))) (snd (snd (snd t)))) (dec c_origination bs)
  | 110 => omap MDelegation (dec c_delegation bs)
  | 111 => omap MRegisterGlobalConstant (dec c_register bs)
  | 158 => omap (fun t => MTransferTicket (fst t) (fst (snd t)) (fst (snd (snd t))) (fst (snd (snd (snd t))))
                                          (fst (snd (snd (snd (snd t))))) (snd (snd (snd (snd (snd t))))))
                (dec c_transfer_ticket bs)
  | 201 => omap MSrAddMessages (dec c_msgs bs)
  | 206 => omap (fun t => MSrExecuteOutbox (fst t) (fst (snd t)) (snd (snd t))) (dec c_sr_execute bs)
  | _ => None
  end.

Definition wf_mop (op : manager_op) : Prop :=
  match op with
  | MReveal pk pr => wf c_pk pk /\ match pr with None => True | Some p => length p = 96%nat end
  | MTransaction a d p => wf c_transaction (a, (d, p))
  | MOrigination b dl c s => wf c_origination (b, (dl, (c, s)))
  | MDelegation dl => wf c_delegation dl
  | MRegisterGlobalConstant v => wf c_register v
  | MTransferTicket c t tk a d e => wf c_transfer_ticket (c, (t, (tk, (a, (d, e)))))
  | MSrAddMessages ms => wf c_msgs ms
  | MSrExecuteOutbox r c p => wf c_sr_execute (r, (c, p))
  end.

Definition norm_mop (op : manager_op) : manager_op :=
  match op with
  | MTransaction a d p => MTransaction a d (norm_params p)
  | _ => op
  end.

Definition normalise (c : content) : content :=
  match c with CManager h op => CManager h (norm_mop op) | _ => c end.

Definition norm_group (g : group) : group := {| branch := branch g; contents := map normalise (contents g) |}.

Definition content_tag (c : content) : N :=
  match c with
  | CEndorsement _ => 0 | CActivate _ _ => 4 | CFailingNoop _ => 17 | CManager _ op => mop_tag op
  end.

(* the canonical encoding of a content: tag, then the kind's fields (parameters normalised) *)
Definition enc_content (c : content) : bytes :=
  b8 (content_tag c) ::
  match normalise c with
  | CEndorsement l => enc (c_uint 4) l
  | CActivate p s => enc c_activate (p, s)
  | CFailingNoop a => enc c_dyn a
  | CManager h op => enc c_header h ++ enc_mop op
  end.

Definition dec_content (bs : bytes) : option (content * bytes) :=
  match bs with
  | [] => None
  | t :: r =>
      match Byte.to_N t with
      | 0 => omap CEndorsement (dec (c_uint 4) r)
      | 4 => omap (fun p => CActivate (fst p) (snd p)) (dec c_activate r)
      | 17 => omap CFailingNoop (dec c_dyn r)
      | _ => match dec c_header r with
             | Some (h, r1) => omap (CManager h) (dec_mop (Byte.to_N t) r1)
             | None => None
             end
      end
  end.

Definition wf_content (c : content) : Prop :=
  match c with
  | CEndorsement l => l < 256 ^ 4
  | CActivate p s => length p = 20%nat /\ length s = 20%nat
  | CFailingNoop a => nlength a < two32
  | CManager h op => wf c_header h /\ wf_mop op
  end.

Definition enc_group (g : group) : bytes := branch g ++ concat (map enc_content (contents g)).

Definition dec_group (bs : bytes) : option group :=
  match take 32 bs with
  | Some (b, r) => match dec_many dec_content (length r) r with
                   | Some cs => Some {| branch := b; contents := cs |}
                   | None => None
                   end
  | None => None
  end.

Definition wf_group (g : group) : Prop := length (branch g) = 32%nat /\ Forall wf_content (contents g).

(* ================================================================ PY: transcription of operation/forge.py *)

Definition forge_tag (t : N) : bytes := [b8 t].
Definition forge_bool (b : bool) : bytes := if b then [xff] else [x00].
Definition forge_array (b : bytes) : bytes := N_to_be 4 (nlength b) ++ b.
Definition forge_array1 (b : bytes) : bytes := N_to_be 1 (nlength b) ++ b.
Definition forge_nat (n : N) : bytes := enc_nat n.

(* forge_address(value, tz_only): the base58 prefix decides the tag; the harness supplies the decoded kind *)
Definition forge_address (a : address) : bytes :=
  match a with
  | AImplicit (KEd, h) => [x00; x00] ++ h
  | AImplicit (KSp, h) => [x00; x01] ++ h
  | AImplicit (KP2, h) => [x00; x02] ++ h
  | AImplicit (KBl, h) => [x00; x03] ++ h
  | AOriginated h => [x01] ++ h ++ [x00]
  | ARollup h => [x03] ++ h ++ [x00]
  end.
Definition forge_key_hash (k : pkh) : bytes := tl (forge_address (AImplicit k)).   (* res[1:] if tz_only *)

Definition forge_public_key (k : pubkey) : bytes :=
  match fst k with KEd => [x00] | KSp => [x01] | KP2 => [x02] | KBl => [x03] end ++ snd k.

Definition forge_entrypoint (name : bytes) : bytes :=
  match find_name py_reserved name with
  | Some t => [b8 t]
  | None => [xff] ++ forge_array1 name
  end.

(* forge.py has_parameters (after fix 31fde15): decided on the forged value, forge_micheline(value) == 03 0b *)
Definition has_parameters (p : option (bytes * bytes)) : bool :=
  match p with
  | None => false
  | Some (ep, v) => negb (bytes_eqb ep default_name && bytes_eqb v unit_value)
  end.

Definition forge_header (tag : N) (h : header) : bytes :=
  forge_tag tag ++ forge_key_hash (source h) ++ forge_nat (fee h) ++ forge_nat (counter h)
  ++ forge_nat (gas_limit h) ++ forge_nat (storage_limit h).

Definition forge_opt_key_hash (d : option pkh) : bytes :=
  match d with Some k => forge_bool true ++ forge_key_hash k | None => forge_bool false end.

Definition forge_manager (h : header) (op : manager_op) : bytes :=
  match op with
  | MReveal pk pr =>
      forge_header 107 h ++ forge_public_key pk ++
      match pr with Some p => forge_bool true ++ forge_array p | None => forge_bool false end
  | MTransaction a d p =>
      forge_header 108 h ++ forge_nat a ++ forge_address d ++
      (if has_parameters p
       then match p with
            | Some (ep, v) => forge_bool true ++ forge_entrypoint ep ++ forge_array v
            | None => forge_bool false
            end
       else forge_bool false)
  | MOrigination b dl c s =>
      forge_header 109 h ++ forge_nat b ++ forge_opt_key_hash dl ++ (forge_array c ++ forge_array s)
  | MDelegation dl => forge_header 110 h ++ forge_opt_key_hash dl
  | MRegisterGlobalConstant v => forge_header 111 h ++ forge_array v
  | MTransferTicket c t tk a d e =>
      forge_header 158 h ++ forge_array c ++ forge_array t ++ forge_address tk ++ forge_nat a
      ++ forge_address d ++ forge_array e
  | MSrAddMessages ms => forge_header 201 h ++ forge_array (concat (map forge_array ms))
  | MSrExecuteOutbox r c p => forge_header 206 h ++ r ++ c ++ forge_array p
  end.

Definition forge_operation (c : content) : bytes :=
  match c with
  | CEndorsement l => forge_tag 0 ++ N_to_be 4 l
  | CActivate p s => forge_tag 4 ++ p ++ s
  | CFailingNoop a => forge_tag 17 ++ forge_array a
  | CManager h op => forge_manager h op
  end.

Definition forge_operation_group (g : group) : bytes :=
  branch g ++ concat (map forge_operation (contents g)).

(* ================================================================ boolean well-formedness and equality (harness) *)

Definition wf_addressb (a : address) : bool :=
  match a with
  | AImplicit k => Nat.eqb (length (snd k)) 20
  | AOriginated h => Nat.eqb (length h) 20
  | ARollup h => Nat.eqb (length h) 20
  end.
Definition wf_pkhb (k : pkh) : bool := Nat.eqb (length (snd k)) 20.
Definition wf_dynb (b : bytes) : bool := nlength b <? two32.
Definition wf_epb (n : bytes) : bool := (1 <=? length n)%nat && (length n <=? 31)%nat.
Definition wf_optb {A} (f : A -> bool) (o : option A) : bool := match o with Some a => f a | None => true end.

Definition wf_mopb (op : manager_op) : bool :=
  match op with
  | MReveal pk pr => Nat.eqb (length (snd pk)) (pk_len (fst pk)) && wf_optb (fun p => Nat.eqb (length p) 96) pr
  | MTransaction a d p => wf_addressb d && wf_optb (fun q => wf_epb (fst q) && wf_dynb (snd q)) p
  | MOrigination b dl c s => wf_optb wf_pkhb dl && wf_dynb c && wf_dynb s
  | MDelegation dl => wf_optb wf_pkhb dl
  | MRegisterGlobalConstant v => wf_dynb v
  | MTransferTicket c t tk a d e => wf_dynb c && wf_dynb t && wf_addressb tk && wf_addressb d && wf_dynb e
  | MSrAddMessages ms => forallb wf_dynb ms && wf_dynb (concat (map enc_dyn ms))
  | MSrExecuteOutbox r c p => Nat.eqb (length r) 20 && Nat.eqb (length c) 32 && wf_dynb p
  end.

Definition wf_contentb (c : content) : bool :=
  match c with
  | CEndorsement l => l <? 256 ^ 4
  | CActivate p s => Nat.eqb (length p) 20 && Nat.eqb (length s) 20
  | CFailingNoop a => wf_dynb a
  | CManager h op => wf_pkhb (source h) && wf_mopb op
  end.

Definition wf_groupb (g : group) : bool := Nat.eqb (length (branch g)) 32 && forallb wf_contentb (contents g).

Definition kcurve_eqb (a b : kcurve) : bool := curve_tag a =? curve_tag b.
Definition pkh_eqb (a b : pkh) : bool := kcurve_eqb (fst a) (fst b) && bytes_eqb (snd a) (snd b).
Definition address_eqb (a b : address) : bool :=
  match a, b with
  | AImplicit x, AImplicit y => pkh_eqb x y
  | AOriginated x, AOriginated y => bytes_eqb x y
  | ARollup x, ARollup y => bytes_eqb x y
  | _, _ => false
  end.
Definition header_eqb (a b : header) : bool :=
  pkh_eqb (source a) (source b) && (fee a =? fee b) && (counter a =? counter b)
  && (gas_limit a =? gas_limit b) && (storage_limit a =? storage_limit b).
Definition mop_eqb (a b : manager_op) : bool :=
  match a, b with
  | MReveal k1 p1, MReveal k2 p2 => pkh_eqb k1 k2 && option_eqb bytes_eqb p1 p2
  | MTransaction a1 d1 p1, MTransaction a2 d2 p2 =>
      (a1 =? a2) && address_eqb d1 d2 && option_eqb (prod_eqb bytes_eqb bytes_eqb) p1 p2
  | MOrigination b1 d1 c1 s1, MOrigination b2 d2 c2 s2 =>
      (b1 =? b2) && option_eqb pkh_eqb d1 d2 && bytes_eqb c1 c2 && bytes_eqb s1 s2
  | MDelegation d1, MDelegation d2 => option_eqb pkh_eqb d1 d2
  | MRegisterGlobalConstant v1, MRegisterGlobalConstant v2 => bytes_eqb v1 v2
  | MTransferTicket c1 t1 k1 a1 d1 e1, MTransferTicket c2 t2 k2 a2 d2 e2 =>
      bytes_eqb c1 c2 && bytes_eqb t1 t2 && address_eqb k1 k2 && (a1 =? a2) && address_eqb d1 d2 && bytes_eqb e1 e2
  | MSrAddMessages m1, MSrAddMessages m2 => list_eqb bytes_eqb m1 m2
  | MSrExecuteOutbox r1 c1 p1, MSrExecuteOutbox r2 c2 p2 => bytes_eqb r1 r2 && bytes_eqb c1 c2 && bytes_eqb p1 p2
  | _, _ => false
  end.
Definition content_eqb (a b : content) : bool :=
  match a, b with
  | CEndorsement x, CEndorsement y => x =? y
  | CActivate p1 s1, CActivate p2 s2 => bytes_eqb p1 p2 && bytes_eqb s1 s2
  | CFailingNoop x, CFailingNoop y => bytes_eqb x y
  | CManager h1 o1, CManager h2 o2 => header_eqb h1 h2 && mop_eqb o1 o2
  | _, _ => false
  end.
Definition group_eqb (a b : group) : bool :=
  bytes_eqb (branch a) (branch b) && list_eqb content_eqb (contents a) (contents b).

(* what the harness compares for one group: pytezos' bytes vs (PY bytes, SPEC bytes agree, decode gives
   the normalised group, well-formedness) *)
Definition check_group (g : group) : bytes * bool * bool * bool :=
  (forge_operation_group g,
   bytes_eqb (enc_group g) (forge_operation_group g),
   match dec_group (enc_group g) with Some g' => group_eqb g' (norm_group g) | None => false end,
   wf_groupb g).

Definition check_eqb (a b : bytes * bool * bool * bool) : bool :=
  let '(b1, s1, d1, w1) := a in let '(b2, s2, d2, w2) := b in
  bytes_eqb b1 b2 && Bool.eqb s1 s2 && Bool.eqb d1 d2 && Bool.eqb w1 w2.

Definition mkh (s : pkh) (f c g st : N) : header :=
  {| source := s; fee := f; counter := c; gas_limit := g; storage_limit := st |}.
Definition mkg (b : bytes) (cs : list content) : group := {| branch := b; contents := cs |}.
