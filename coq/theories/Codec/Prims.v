(* Codec/Prims.v — the Michelson primitive table of the Tezos protocol (Michelson_v1_primitives:
   name <-> one-byte binary tag, tags 0x00..0x9e), pinned here as the reference.
   /repo/src/pytezos/michelson/tags.py is compared with this table exhaustively on every run of
   the C05 check (both directions; the 0xee placeholder rows of tags.py — TZT/Jupyter helper
   words that are not protocol primitives — must stay out of the decoder's reverse table). *)
From Coq Require Import List String Bool.
From Coq.Strings Require Import Byte.
From PV Require Import Base.Bytes.
Import ListNotations.
Local Open Scope string_scope.

Definition prims : list (string * byte) := [
  ("parameter", x00); ("storage", x01); ("code", x02); ("False", x03);
  ("Elt", x04); ("Left", x05); ("None", x06); ("Pair", x07);
  ("Right", x08); ("Some", x09); ("True", x0a); ("Unit", x0b);
  ("PACK", x0c); ("UNPACK", x0d); ("BLAKE2B", x0e); ("SHA256", x0f);
  ("SHA512", x10); ("ABS", x11); ("ADD", x12); ("AMOUNT", x13);
  ("AND", x14); ("BALANCE", x15); ("CAR", x16); ("CDR", x17);
  ("CHECK_SIGNATURE", x18); ("COMPARE", x19); ("CONCAT", x1a); ("CONS", x1b);
  ("__CREATE_ACCOUNT__", x1c); ("CREATE_CONTRACT", x1d); ("IMPLICIT_ACCOUNT", x1e); ("DIP", x1f);
  ("DROP", x20); ("DUP", x21); ("EDIV", x22); ("EMPTY_MAP", x23);
  ("EMPTY_SET", x24); ("EQ", x25); ("EXEC", x26); ("FAILWITH", x27);
  ("GE", x28); ("GET", x29); ("GT", x2a); ("HASH_KEY", x2b);
  ("IF", x2c); ("IF_CONS", x2d); ("IF_LEFT", x2e); ("IF_NONE", x2f);
  ("INT", x30); ("LAMBDA", x31); ("LE", x32); ("LEFT", x33);
  ("LOOP", x34); ("LSL", x35); ("LSR", x36); ("LT", x37);
  ("MAP", x38); ("MEM", x39); ("MUL", x3a); ("NEG", x3b);
  ("NEQ", x3c); ("NIL", x3d); ("NONE", x3e); ("NOT", x3f);
  ("NOW", x40); ("OR", x41); ("PAIR", x42); ("PUSH", x43);
  ("RIGHT", x44); ("SIZE", x45); ("SOME", x46); ("SOURCE", x47);
  ("SENDER", x48); ("SELF", x49); ("STEPS_TO_QUOTA", x4a); ("SUB", x4b);
  ("SWAP", x4c); ("TRANSFER_TOKENS", x4d); ("SET_DELEGATE", x4e); ("UNIT", x4f);
  ("UPDATE", x50); ("XOR", x51); ("ITER", x52); ("LOOP_LEFT", x53);
  ("ADDRESS", x54); ("CONTRACT", x55); ("ISNAT", x56); ("CAST", x57);
  ("RENAME", x58); ("bool", x59); ("contract", x5a); ("int", x5b);
  ("key", x5c); ("key_hash", x5d); ("lambda", x5e); ("list", x5f);
  ("map", x60); ("big_map", x61); ("nat", x62); ("option", x63);
  ("or", x64); ("pair", x65); ("set", x66); ("signature", x67);
  ("string", x68); ("bytes", x69); ("mutez", x6a); ("timestamp", x6b);
  ("unit", x6c); ("operation", x6d); ("address", x6e); ("SLICE", x6f);
  ("DIG", x70); ("DUG", x71); ("EMPTY_BIG_MAP", x72); ("APPLY", x73);
  ("chain_id", x74); ("CHAIN_ID", x75); ("LEVEL", x76); ("SELF_ADDRESS", x77);
  ("never", x78); ("NEVER", x79); ("UNPAIR", x7a); ("VOTING_POWER", x7b);
  ("TOTAL_VOTING_POWER", x7c); ("KECCAK", x7d); ("SHA3", x7e); ("PAIRING_CHECK", x7f);
  ("bls12_381_g1", x80); ("bls12_381_g2", x81); ("bls12_381_fr", x82); ("sapling_state", x83);
  ("sapling_transaction_deprecated", x84); ("SAPLING_EMPTY_STATE", x85); ("SAPLING_VERIFY_UPDATE", x86); ("ticket", x87);
  ("TICKET_DEPRECATED", x88); ("READ_TICKET", x89); ("SPLIT_TICKET", x8a); ("JOIN_TICKETS", x8b);
  ("GET_AND_UPDATE", x8c); ("chest", x8d); ("chest_key", x8e); ("OPEN_CHEST", x8f);
  ("VIEW", x90); ("view", x91); ("constant", x92); ("SUB_MUTEZ", x93);
  ("tx_rollup_l2_address", x94); ("MIN_BLOCK_TIME", x95); ("sapling_transaction", x96); ("EMIT", x97);
  ("Lambda_rec", x98); ("LAMBDA_REC", x99); ("TICKET", x9a); ("BYTES", x9b);
  ("NAT", x9c); ("Ticket", x9d); ("IS_IMPLICIT_ACCOUNT", x9e)
].

Definition prim_tags_list : list byte := map snd prims.

(* [known_prim t]: [t] is the tag of a protocol primitive *)
Definition known_prim (t : byte) : bool := existsb (byte_eqb t) prim_tags_list.

Fixpoint assoc_tag (name : string) (l : list (string * byte)) : option byte :=
  match l with
  | [] => None
  | (k, t) :: r => if String.eqb k name then Some t else assoc_tag name r
  end.
Definition prim_tag (name : string) : option byte := assoc_tag name prims.

Fixpoint assoc_name (t : byte) (l : list (string * byte)) : option string :=
  match l with
  | [] => None
  | (k, t') :: r => if byte_eqb t' t then Some k else assoc_name t r
  end.
Definition prim_name (t : byte) : option string := assoc_name t prims.

(* tags referred to by name in other models *)
Definition T_PUSH : byte := x43.
Definition T_LAMBDA : byte := x31.
Definition T_LAMBDA_REC : byte := x99.
Definition T_lambda : byte := x5e.
Definition T_SELF : byte := x49.
Definition T_TRANSFER_TOKENS : byte := x4d.
Definition T_CREATE_CONTRACT : byte := x1d.
Definition T_SET_DELEGATE : byte := x4e.
Definition T_constant : byte := x92.
Definition T_view : byte := x91.

Definition named_tags_ok : bool :=
  forallb (fun p => match prim_tag (fst p) with Some t => byte_eqb t (snd p) | None => false end)
    [("PUSH", T_PUSH); ("LAMBDA", T_LAMBDA); ("LAMBDA_REC", T_LAMBDA_REC); ("lambda", T_lambda);
     ("SELF", T_SELF); ("TRANSFER_TOKENS", T_TRANSFER_TOKENS); ("CREATE_CONTRACT", T_CREATE_CONTRACT);
     ("SET_DELEGATE", T_SET_DELEGATE); ("constant", T_constant); ("view", T_view)].
