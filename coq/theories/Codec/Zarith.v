(* Codec/Zarith.v — the two variable-length integer encodings of the Tezos binary format
   ("zarith" N and Z of data-encoding), as pytezos implements them in
   /repo/src/pytezos/michelson/forge.py:

     enc_nat  ~ forge_nat      LEB128: 7 value bits per byte, least significant group first,
                               bit 7 = "another byte follows"
     enc_int  ~ forge_int      first byte: bit 7 = continuation, bit 6 = sign, 6 value bits;
                               every further byte is a LEB128 group of |z| / 64
     dec_int  ~ unforge_int    (reads up to the first byte without continuation bit; rejects a
                               multi-byte encoding whose last byte is 00 = non-minimal; "-0" =
                               0x40 is accepted and yields 0, as Tezos does)
     dec_nat                   the same reader for naturals (pytezos has no stand-alone nat
                               reader in michelson/forge.py; the tail of an integer is one)

   Decoders return the value and the unread rest of the buffer.
   Definitions only; the lemmas live in Proofs/Zarith_proofs.v.

   Independent (declarative) description of the format, used as the integer part of the
   Micheline grammar: [leb_shape], [leb_value], [LebNat], [ZarithInt]. *)
From Coq Require Import List NArith ZArith Bool.
From Coq.Strings Require Import Byte.
From PV Require Import Base.Bytes.
Import ListNotations.
Local Open Scope N_scope.

(* ---------------------------------------------------------------- encoders *)

(* Low bits / remaining bits by mask and shift (linear time in the kernel's evaluators; [N.div]
   is quadratic, which matters for integers of thousands of bits). Proofs/Zarith_proofs.v shows
   lo7 n = n mod 128, hi7 n = n / 128, lo6 n = n mod 64, hi6 n = n / 64. *)
Definition lo7 (n : N) : N := N.land n 127.
Definition hi7 (n : N) : N := N.shiftr n 7.
Definition lo6 (n : N) : N := N.land n 63.
Definition hi6 (n : N) : N := N.shiftr n 6.

(* fuel = number of bits of [n]; each step drops 7 bits (see enc_nat_eqn) *)
Fixpoint enc_nat_fuel (fuel : nat) (n : N) : bytes :=
  match fuel with
  | O => [b8 n]
  | S f => if n <? 128 then [b8 n] else b8 (128 + lo7 n) :: enc_nat_fuel f (hi7 n)
  end.

Definition enc_nat (n : N) : bytes := enc_nat_fuel (N.size_nat n) n.

Definition enc_int (z : Z) : bytes :=
  let a := Z.abs_N z in
  let sign := if (z <? 0)%Z then 64 else 0 in
  if a <? 64 then [b8 (sign + a)]
  else b8 (128 + sign + lo6 a) :: enc_nat (hi6 a).

(* ---------------------------------------------------------------- decoders *)

Fixpoint dec_nat (bs : bytes) : option (N * bytes) :=
  match bs with
  | [] => None
  | b :: r =>
      let v := Byte.to_N b in
      if v <? 128 then Some (v, r)
      else match dec_nat r with
           | Some (hi, r') =>
               (* hi = 0 means the remaining groups are all zero: trailing zero byte *)
               if hi =? 0 then None else Some (v - 128 + 128 * hi, r')
           | None => None
           end
  end.

Definition dec_int (bs : bytes) : option (Z * bytes) :=
  match bs with
  | [] => None
  | b :: r =>
      let v := Byte.to_N b in
      let neg := 64 <=? v mod 128 in
      let lo := v mod 64 in
      let mk (a : N) : Z := if neg then (- Z.of_N a)%Z else Z.of_N a in
      if v <? 128 then Some (mk lo, r)
      else match dec_nat r with
           | Some (hi, r') => if hi =? 0 then None else Some (mk (lo + 64 * hi), r')
           | None => None
           end
  end.

(* exact decoders: the whole buffer must be consumed *)
Definition dec_nat_full (bs : bytes) : option N :=
  match dec_nat bs with Some (n, []) => Some n | _ => None end.
Definition dec_int_full (bs : bytes) : option Z :=
  match dec_int bs with Some (z, []) => Some z | _ => None end.

(* ---------------------------------------------------------------- declarative format *)

Definition cont (b : byte) : bool := 128 <=? Byte.to_N b.

(* a well-shaped LEB128 group string: continuation bits set on all bytes but the last,
   and (minimality) the last byte is not 00 unless it is the only one *)
Definition leb_shape (bs : bytes) : Prop :=
  exists pre l, bs = pre ++ [l] /\ Forall (fun b => cont b = true) pre /\ cont l = false /\
                (pre <> [] -> l <> x00).

Fixpoint leb_value (bs : bytes) : N :=
  match bs with
  | [] => 0
  | b :: r => Byte.to_N b mod 128 + 128 * leb_value r
  end.

Definition LebNat (n : N) (bs : bytes) : Prop := leb_shape bs /\ leb_value bs = n.

(* signed: first byte = continuation | sign | 6 bits; the tail (present iff the continuation
   bit is set) is a well-shaped group string of non-zero value *)
Definition ZarithInt (z : Z) (bs : bytes) : Prop :=
  exists b0 tl, bs = b0 :: tl /\
    (if cont b0 then leb_shape tl /\ leb_value tl <> 0 else tl = []) /\
    let a := Byte.to_N b0 mod 64 + 64 * leb_value tl in
    z = if 64 <=? Byte.to_N b0 mod 128 then (- Z.of_N a)%Z else Z.of_N a.
