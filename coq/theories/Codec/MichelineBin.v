(* Codec/MichelineBin.v — the binary form of Micheline (Tezos "Micheline.canonical_encoding",
   the form used by PACK, operation forging and script hashes), as implemented by
   /repo/src/pytezos/michelson/forge.py:

     enc       ~ forge_micheline     (node -> bytes)
     dec_full  ~ unforge_micheline   (bytes -> node, or rejection)
     Enc       the relational grammar of the format: "these bytes are a binary Micheline
               expression denoting this tree" — the readable statement of what is accepted.

   Layout (one tag byte, then):
     00  zarith integer (Codec/Zarith.v)
     01  string: 4-byte big-endian length, bytes
     02  sequence: 4-byte length of the body, body = concatenated elements
     03/04  primitive, no argument,  without/with annotations:  prim tag [annotation string]
     05/06  primitive, one argument:  prim tag, arg [annots]
     07/08  primitive, two arguments: prim tag, arg, arg [annots]
     09  primitive, generic: prim tag, 4-byte length + concatenated args, annotation string (always)
     0a  bytes: 4-byte length, bytes
   An annotation string is 4-byte length + the annotations joined by single spaces.

   The decoder is parametric in
     known  : which prim tags exist   (instantiated with Codec.Prims.known_prim, the protocol table)
     str_ok : which byte strings are acceptable text (pytezos: valid UTF-8, because it turns
              strings and annotations into Python str; Tezos itself: every byte string).

   pytezos walks one global buffer with an index and checks "ptr == end" after a sequence;
   since the index only grows, that is extensionally the same as decoding each sequence body in
   its own sub-buffer, which is how [dec] is written.  Recursion is on fuel; exhaustion yields
   the distinguished [DFuel], and [dec_full] supplies 2*length+1, proved sufficient
   (Proofs/MichelineBin_proofs.v: dec_full_fuel_ok).

   Definitions only. *)
From Coq Require Import List NArith ZArith Bool.
From Coq.Strings Require Import Byte.
From PV Require Import Base.Bytes Codec.Micheline Codec.Zarith Codec.Prims.
Import ListNotations.

(* ---------------------------------------------------------------- results *)

Inductive dres (A : Type) : Type :=
| DOk (a : A)
| DReject
| DFuel.
Arguments DOk {A} a.
Arguments DReject {A}.
Arguments DFuel {A}.

Definition dbind {A B} (r : dres A) (f : A -> dres B) : dres B :=
  match r with DOk a => f a | DReject => DReject | DFuel => DFuel end.

Definition dres_eqb {A} (eqb : A -> A -> bool) (a b : dres A) : bool :=
  match a, b with
  | DOk x, DOk y => eqb x y
  | DReject, DReject => true
  | DFuel, DFuel => true
  | _, _ => false
  end.

(* ---------------------------------------------------------------- length-prefixed arrays *)

Definition two32 : N := 4294967296.

Definition be32 (n : nat) : bytes := N_to_be 4 (N.of_nat n).

(* forge_array *)
Definition arr (b : bytes) : bytes := be32 (length b) ++ b.

(* [fits b]: the length of [b] can be written in four bytes *)
Definition fits (b : bytes) : bool := (N.of_nat (length b) <? two32)%N.

(* unforge_array: (body, rest). The comparison is done in N so that a huge length field is
   never turned into a unary number. *)
Definition take_arr (bs : bytes) : option (bytes * bytes) :=
  match bs with
  | a :: b :: c :: d :: r =>
      let len := be_to_N [a; b; c; d] in
      if (len <=? N.of_nat (length r))%N
      then Some (firstn (N.to_nat len) r, skipn (N.to_nat len) r)
      else None
  | _ => None
  end.

(* ---------------------------------------------------------------- annotations *)

(* Python: ' '.join(annots) *)
Fixpoint join_sp (l : list bytes) : bytes :=
  match l with
  | [] => []
  | [a] => a
  | a :: r => a ++ x20 :: join_sp r
  end.

(* Python: text.split(' ')  (never the empty list) *)
Fixpoint split_sp (bs : bytes) : list bytes :=
  match bs with
  | [] => [[]]
  | b :: r =>
      if byte_eqb b x20 then [] :: split_sp r
      else match split_sp r with
           | h :: t => (b :: h) :: t
           | [] => [[b]]
           end
  end.

(* the decoder's view of an annotation string: empty string = no annotations *)
Definition annots_of (a : bytes) : list bytes :=
  match a with [] => [] | _ => split_sp a end.

Definition is_nil {A} (l : list A) : bool := match l with [] => true | _ => false end.

(* ---------------------------------------------------------------- text (UTF-8) *)

Definition in_range (lo hi : N) (b : byte) : bool :=
  ((lo <=? Byte.to_N b) && (Byte.to_N b <=? hi))%N.

(* exactly the well-formed UTF-8 byte sequences (Unicode table 3-7): what Python's
   bytes.decode() accepts *)
Fixpoint utf8_valid (bs : bytes) : bool :=
  match bs with
  | [] => true
  | a :: r =>
      let x := Byte.to_N a in
      if (x <? 128)%N then utf8_valid r
      else if (x <? 194)%N then false
      else if (x <? 224)%N then
        match r with
        | b :: r' => in_range 128 191 b && utf8_valid r'
        | _ => false
        end
      else if (x <? 240)%N then
        match r with
        | b :: c :: r' =>
            (if (x =? 224)%N then in_range 160 191 b
             else if (x =? 237)%N then in_range 128 159 b
             else in_range 128 191 b)
            && in_range 128 191 c && utf8_valid r'
        | _ => false
        end
      else if (x <? 245)%N then
        match r with
        | b :: c :: d :: r' =>
            (if (x =? 240)%N then in_range 144 191 b
             else if (x =? 244)%N then in_range 128 143 b
             else in_range 128 191 b)
            && in_range 128 191 c && in_range 128 191 d && utf8_valid r'
        | _ => false
        end
      else false
  end.

(* ---------------------------------------------------------------- encoder *)

Fixpoint enc (n : node) : bytes :=
  match n with
  | NInt z => x00 :: enc_int z
  | NStr s => x01 :: arr s
  | NByt b => x0a :: arr b
  | NSeq items =>
      x02 :: arr ((fix go (l : list node) : bytes :=
                     match l with [] => [] | x :: r => enc x ++ go r end) items)
  | NPrim t args annots =>
      let ea := (fix go (l : list node) : bytes :=
                   match l with [] => [] | x :: r => enc x ++ go r end) args in
      let has := negb (is_nil annots) in
      let an := if has then arr (join_sp annots) else [] in
      match args with
      | [] => (if has then x04 else x03) :: t :: an
      | [_] => (if has then x06 else x05) :: t :: ea ++ an
      | [_; _] => (if has then x08 else x07) :: t :: ea ++ an
      | _ => x09 :: t :: arr ea ++ (if has then an else be32 0)
      end
  end.

Definition enc_list (l : list node) : bytes := flat_map enc l.

(* ---------------------------------------------------------------- decoder *)

(* tag byte of a primitive application -> (number of inline arguments, 3 = generic; annotations?) *)
Definition prim_shape (tag : byte) : option (nat * bool) :=
  match tag with
  | x03 => Some (0, false) | x04 => Some (0, true)
  | x05 => Some (1, false) | x06 => Some (1, true)
  | x07 => Some (2, false) | x08 => Some (2, true)
  | x09 => Some (3, true)
  | _ => None
  end.

Section Dec.
  Variable known : byte -> bool.
  Variable str_ok : bytes -> bool.

  (* optional annotation string after the arguments *)
  Definition dec_annots (has : bool) (bs : bytes) : dres (list bytes * bytes) :=
    if has then
      match take_arr bs with
      | Some (a, rest) => if str_ok a then DOk (annots_of a, rest) else DReject
      | None => DReject
      end
    else DOk ([], bs).

  Fixpoint dec (fuel : nat) (bs : bytes) {struct fuel} : dres (node * bytes) :=
    match fuel with
    | O => DFuel
    | S f =>
        match bs with
        | [] => DReject
        | tag :: r =>
            match tag with
            | x00 =>
                match dec_int r with
                | Some (z, rest) => DOk (NInt z, rest)
                | None => DReject
                end
            | x01 =>
                match take_arr r with
                | Some (s, rest) => if str_ok s then DOk (NStr s, rest) else DReject
                | None => DReject
                end
            | x0a =>
                match take_arr r with
                | Some (b, rest) => DOk (NByt b, rest)
                | None => DReject
                end
            | x02 =>
                match take_arr r with
                | Some (body, rest) =>
                    dbind (dec_list f body) (fun items => DOk (NSeq items, rest))
                | None => DReject
                end
            | _ =>
                match prim_shape tag, r with
                | Some (k, has), t :: r1 =>
                    if known t then
                      dbind
                        (match k with
                         | 0 => DOk ([], r1)
                         | 1 => dbind (dec f r1) (fun '(a, r2) => DOk ([a], r2))
                         | 2 => dbind (dec f r1) (fun '(a, r2) =>
                                dbind (dec f r2) (fun '(b, r3) => DOk ([a; b], r3)))
                         | _ => match take_arr r1 with
                                | Some (body, r2) =>
                                    dbind (dec_list f body) (fun args => DOk (args, r2))
                                | None => DReject
                                end
                         end)
                        (fun '(args, r2) =>
                           dbind (dec_annots has r2) (fun '(annots, r3) =>
                           DOk (NPrim t args annots, r3)))
                    else DReject
                | _, _ => DReject
                end
            end
        end
    end
  with dec_list (fuel : nat) (buf : bytes) {struct fuel} : dres (list node) :=
    match buf with
    | [] => DOk []
    | _ =>
        match fuel with
        | O => DFuel
        | S f =>
            dbind (dec f buf) (fun '(x, rest) =>
            dbind (dec_list f rest) (fun xs => DOk (x :: xs)))
        end
    end.

  Definition fuel_for (bs : bytes) : nat := S (2 * length bs).

  (* the whole buffer must be one expression *)
  Definition dec_full_gen (bs : bytes) : dres node :=
    match dec (fuel_for bs) bs with
    | DOk (n, []) => DOk n
    | DOk (_, _ :: _) => DReject
    | DReject => DReject
    | DFuel => DFuel
    end.

  (* ---------------------------------------------------------------- grammar *)

  (* the annotation part after the arguments of a primitive *)
  Definition AnnPart (has : bool) (annots : list bytes) (e : bytes) : Prop :=
    if has
    then exists a, e = arr a /\ fits a = true /\ str_ok a = true /\ annots = annots_of a
    else e = [] /\ annots = [].

  Inductive Enc : node -> bytes -> Prop :=
  | EInt z e : ZarithInt z e -> Enc (NInt z) (x00 :: e)
  | EStr s : fits s = true -> str_ok s = true -> Enc (NStr s) (x01 :: arr s)
  | EByt b : fits b = true -> Enc (NByt b) (x0a :: arr b)
  | ESeq items body :
      EncList items body -> fits body = true -> Enc (NSeq items) (x02 :: arr body)
  | EPrim0 t has annots ea :
      known t = true -> AnnPart has annots ea ->
      Enc (NPrim t [] annots) ((if has then x04 else x03) :: t :: ea)
  | EPrim1 t has annots ea a e1 :
      known t = true -> Enc a e1 -> AnnPart has annots ea ->
      Enc (NPrim t [a] annots) ((if has then x06 else x05) :: t :: e1 ++ ea)
  | EPrim2 t has annots ea a e1 b e2 :
      known t = true -> Enc a e1 -> Enc b e2 -> AnnPart has annots ea ->
      Enc (NPrim t [a; b] annots) ((if has then x08 else x07) :: t :: e1 ++ e2 ++ ea)
  | EPrimN t annots ea args body :
      known t = true -> EncList args body -> fits body = true -> AnnPart true annots ea ->
      Enc (NPrim t args annots) (x09 :: t :: arr body ++ ea)
  with EncList : list node -> bytes -> Prop :=
  | ENil : EncList [] []
  | ECons x e xs es : Enc x e -> EncList xs es -> EncList (x :: xs) (e ++ es).

End Dec.

Arguments ENil {known str_ok}.

(* ---------------------------------------------------------------- pytezos instance *)

Definition dec_full : bytes -> dres node := dec_full_gen known_prim utf8_valid.

(* ---------------------------------------------------------------- well-formed trees
   (the domain of the round-trip theorem): every primitive is a protocol primitive, text is
   acceptable text, annotations contain no space and are not the single empty annotation
   (the format cannot tell [""] from no annotation), and every length fits four bytes. *)

Definition no_space (a : bytes) : bool := negb (existsb (fun c => byte_eqb c x20) a).

Definition wf_annots (str_ok : bytes -> bool) (annots : list bytes) : bool :=
  forallb no_space annots
  && negb (list_eqb bytes_eqb annots [[]])
  && str_ok (join_sp annots)
  && fits (join_sp annots).

Fixpoint wf_nodeb (known : byte -> bool) (str_ok : bytes -> bool) (n : node) : bool :=
  match n with
  | NInt _ => true
  | NStr s => str_ok s && fits s
  | NByt b => fits b
  | NSeq items =>
      (fix go (l : list node) : bool :=
         match l with [] => true | x :: r => wf_nodeb known str_ok x && go r end) items
      && fits (enc_list items)
  | NPrim t args annots =>
      known t
      && (fix go (l : list node) : bool :=
            match l with [] => true | x :: r => wf_nodeb known str_ok x && go r end) args
      && wf_annots str_ok annots
      && fits (enc_list args)
  end.

Definition wf_node (n : node) : Prop := wf_nodeb known_prim utf8_valid n = true.

Definition dres_node_eqb : dres node -> dres node -> bool := dres_eqb node_eqb.

(* the grammar instantiated for pytezos, and for Tezos itself (any byte string is text) *)
Definition any_text (_ : bytes) : bool := true.
Definition MichEnc : node -> bytes -> Prop := Enc known_prim utf8_valid.
Definition MichEncList : list node -> bytes -> Prop := EncList known_prim utf8_valid.
Definition TezosEnc : node -> bytes -> Prop := Enc known_prim any_text.
Definition dec_full_tezos : bytes -> dres node := dec_full_gen known_prim any_text.

(* ---------------------------------------------------------------- index-style decoder
   A second decoder that follows the control flow of unforge_micheline literally: one buffer and
   an index.  The state is the unread suffix [bs] (= data[ptr:]); a sequence reads its length n
   (which must not exceed the rest of the *whole* buffer), then keeps decoding elements from the
   whole suffix while ptr < end, and finally demands ptr == end: [pseq] carries end - ptr as
   [remaining] and rejects as soon as an element has consumed more than that.
   Proofs/MichelineBin_proofs.v shows  pdec_full_gen = dec_full_gen  (pdec_full_eq). *)
Section IndexDec.
  Variable known : byte -> bool.
  Variable str_ok : bytes -> bool.

  (* unforge_array used only for its length check, as unforge_sequence does *)
  Definition seq_len (bs : bytes) : option (nat * bytes) :=
    match bs with
    | a :: b :: c :: d :: r =>
        let len := be_to_N [a; b; c; d] in
        if (len <=? N.of_nat (length r))%N then Some (N.to_nat len, r) else None
    | _ => None
    end.

  Fixpoint pdec (fuel : nat) (bs : bytes) {struct fuel} : dres (node * bytes) :=
    match fuel with
    | O => DFuel
    | S f =>
        match bs with
        | [] => DReject
        | tag :: r =>
            match tag with
            | x00 =>
                match dec_int r with
                | Some (z, rest) => DOk (NInt z, rest)
                | None => DReject
                end
            | x01 =>
                match take_arr r with
                | Some (s, rest) => if str_ok s then DOk (NStr s, rest) else DReject
                | None => DReject
                end
            | x0a =>
                match take_arr r with
                | Some (b, rest) => DOk (NByt b, rest)
                | None => DReject
                end
            | x02 =>
                match seq_len r with
                | Some (n, r1) => dbind (pseq f n r1) (fun '(items, rest) => DOk (NSeq items, rest))
                | None => DReject
                end
            | _ =>
                match prim_shape tag, r with
                | Some (k, has), t :: r1 =>
                    if known t then
                      dbind
                        (match k with
                         | 0 => DOk ([], r1)
                         | 1 => dbind (pdec f r1) (fun '(a, r2) => DOk ([a], r2))
                         | 2 => dbind (pdec f r1) (fun '(a, r2) =>
                                dbind (pdec f r2) (fun '(b, r3) => DOk ([a; b], r3)))
                         | _ => match seq_len r1 with
                                | Some (n, r2) => pseq f n r2
                                | None => DReject
                                end
                         end)
                        (fun '(args, r2) =>
                           dbind (dec_annots str_ok has r2) (fun '(annots, r3) =>
                           DOk (NPrim t args annots, r3)))
                    else DReject
                | _, _ => DReject
                end
            end
        end
    end
  with pseq (fuel : nat) (remaining : nat) (bs : bytes) {struct fuel} : dres (list node * bytes) :=
    match remaining with
    | O => DOk ([], bs)
    | _ =>
        match fuel with
        | O => DFuel
        | S f =>
            dbind (pdec f bs) (fun '(x, rest) =>
              let k := length bs - length rest in
              if Nat.leb k remaining
              then dbind (pseq f (remaining - k) rest) (fun '(xs, rest') => DOk (x :: xs, rest'))
              else DReject)
        end
    end.

  Definition pdec_full_gen (bs : bytes) : dres node :=
    match pdec (fuel_for bs) bs with
    | DOk (n, []) => DOk n
    | DOk (_, _ :: _) => DReject
    | DReject => DReject
    | DFuel => DFuel
    end.
End IndexDec.

Definition pdec_full : bytes -> dres node := pdec_full_gen known_prim utf8_valid.
