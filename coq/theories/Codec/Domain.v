(* Codec/Domain.v — optimized (binary) forms of addresses, contracts, key hashes, public keys,
   signatures and chain ids: model of forge_address / unforge_address / forge_contract /
   unforge_contract / forge_public_key / unforge_public_key / forge_base58 / unforge_signature /
   unforge_chain_id (src/pytezos/michelson/forge.py), of the optimized-mode converters of
   michelson/types/domain.py and of blind_unpack (michelson/micheline.py).

   Part 1 works on (kind, payload bytes) values — this is the interface other models import.
   Part 2 is the text-level model (the Python functions take and return Base58Check strings);
   Proofs/Domain_proofs.v shows that on well-formed values the two levels agree, through the
   Base58 round trip of C09.

   Repaired behaviour assumed (FIXLOG): #3 (dispatch on length), #38 (split at the first '%'),
   #43 (96-byte signatures read back as BLsig).  No proofs in this file. *)
From Coq Require Import String List NArith Bool Arith.
From Coq.Strings Require Import Byte.
From PV Require Import Base.Bytes Base.Result Codec.Base58.
Import ListNotations.
Local Open Scope list_scope.

(* ========================================================================================== *)
(* Part 1 — values as (kind, payload)                                                          *)

Inductive addr_kind := Tz1 | Tz2 | Tz3 | Tz4 | KT1 | Txr1 | Sr1.

Definition addr_kind_eqb (a b : addr_kind) : bool :=
  match a, b with
  | Tz1, Tz1 | Tz2, Tz2 | Tz3, Tz3 | Tz4, Tz4 | KT1, KT1 | Txr1, Txr1 | Sr1, Sr1 => true
  | _, _ => false
  end.

(* an address or key hash: kind and 20-byte hash *)
Definition address := (addr_kind * bytes)%type.
Definition address_eqb : address -> address -> bool := prod_eqb addr_kind_eqb bytes_eqb.
Definition wf_address (a : address) : Prop := length (snd a) = 20%nat.

Definition is_implicit (k : addr_kind) : bool :=
  match k with Tz1 | Tz2 | Tz3 | Tz4 => true | _ => false end.

(* forge_address(value, tz_only) *)
Definition forge_address (tz_only : bool) (a : address) : bytes :=
  let h := snd a in
  let res := match fst a with
             | Tz1 => x00 :: x00 :: h
             | Tz2 => x00 :: x01 :: h
             | Tz3 => x00 :: x02 :: h
             | Tz4 => x00 :: x03 :: h
             | KT1 => x01 :: h ++ [x00]
             | Txr1 => x02 :: h ++ [x00]
             | Sr1 => x03 :: h ++ [x00]
             end in
  if tz_only then tl res else res.

Definition tz_of_tag (b : byte) : option addr_kind :=
  match b with x00 => Some Tz1 | x01 => Some Tz2 | x02 => Some Tz3 | x03 => Some Tz4 | _ => None end.

Definition originated_of_tag (b : byte) : option addr_kind :=
  match b with x01 => Some KT1 | x02 => Some Txr1 | x03 => Some Sr1 | _ => None end.

(* unforge_address(data): 21 bytes = key hash (curve tag + digest), 22 bytes = address *)
Definition unforge_address (d : bytes) : result address :=
  if Nat.eqb (length d) 21 then
    match d with
    | t :: h => match tz_of_tag t with Some k => Ok (k, h) | None => Reject end
    | [] => Reject
    end
  else if Nat.eqb (length d) 22 then
    match d with
    | t0 :: t1 :: r =>
        match (if byte_eqb t0 x00 then tz_of_tag t1 else None) with
        | Some k => Ok (k, r)
        | None =>
            match originated_of_tag t0 with
            | Some k => if byte_eqb (last d x01) x00 then Ok (k, removelast (t1 :: r)) else Reject
            | None => Reject
            end
        end
    | _ => Reject
    end
  else Reject.

(* key hashes: KeyHashType only admits tz1..tz4 (is_pkh) *)
Definition forge_key_hash (a : address) : bytes := forge_address true a.
Definition unforge_key_hash (d : bytes) : result address :=
  match unforge_address d with
  | Ok (k, h) => if is_implicit k then Ok (k, h) else Reject
  | Reject => Reject
  end.

(* an address with an entrypoint; the name "default" stands for "no entrypoint" (that is how
   AddressType.from_value normalises the Python string) *)
Definition contract := (address * bytes)%type.
Definition contract_eqb : contract -> contract -> bool := prod_eqb address_eqb bytes_eqb.
Definition default_ep : bytes := Eval vm_compute in tx "default".

Definition forge_contract (c : contract) : bytes :=
  forge_address false (fst c) ++ (if bytes_eqb (snd c) default_ep then [] else snd c).

Definition unforge_contract (d : bytes) : result contract :=
  match unforge_address (firstn 22 d) with
  | Ok a => Ok (a, if Nat.ltb 22 (length d) then skipn 22 d else default_ep)
  | Reject => Reject
  end.

(* AddressType / ContractType accept tz, KT1, sr1 (is_address); TXRAddress accepts txr1 *)
Definition address_type_admits (k : addr_kind) : bool := match k with Txr1 => false | _ => true end.

Definition unforge_address_typed (d : bytes) : result contract :=
  match unforge_contract d with
  | Ok (a, e) => if address_type_admits (fst a) then Ok (a, e) else Reject
  | Reject => Reject
  end.

Definition unforge_txr_typed (d : bytes) : result contract :=
  match unforge_contract d with
  | Ok (a, e) => if address_type_admits (fst a) then Reject else Ok (a, e)
  | Reject => Reject
  end.

(* public keys *)
Inductive key_kind := Edpk | Sppk | P2pk | BLpk.

Definition key_kind_eqb (a b : key_kind) : bool :=
  match a, b with
  | Edpk, Edpk | Sppk, Sppk | P2pk, P2pk | BLpk, BLpk => true
  | _, _ => false
  end.

Definition public_key := (key_kind * bytes)%type.
Definition public_key_eqb : public_key -> public_key -> bool := prod_eqb key_kind_eqb bytes_eqb.

Definition key_len (k : key_kind) : nat :=
  match k with Edpk => 32 | Sppk => 33 | P2pk => 33 | BLpk => 48 end.

Definition wf_public_key (k : public_key) : Prop := length (snd k) = key_len (fst k).

Definition key_tag (k : key_kind) : byte :=
  match k with Edpk => x00 | Sppk => x01 | P2pk => x02 | BLpk => x03 end.

Definition key_of_tag (b : byte) : option key_kind :=
  match b with x00 => Some Edpk | x01 => Some Sppk | x02 => Some P2pk | x03 => Some BLpk | _ => None end.

Definition forge_public_key (k : public_key) : bytes := key_tag (fst k) :: snd k.

Definition unforge_public_key (d : bytes) : result public_key :=
  match d with
  | t :: p => match key_of_tag t with
              | Some k => if Nat.eqb (length p) (key_len k) then Ok (k, p) else Reject
              | None => Reject
              end
  | [] => Reject
  end.

(* signatures: the notation (sig / edsig / spsig / p2sig / BLsig) is spelling, the value is the
   64 or 96 raw bytes; reading back yields the generic notation (sig, or BLsig for 96 bytes) *)
Inductive sig_kind := Sig | Edsig | Spsig | P2sig | BLsig.

Definition sig_kind_eqb (a b : sig_kind) : bool :=
  match a, b with
  | Sig, Sig | Edsig, Edsig | Spsig, Spsig | P2sig, P2sig | BLsig, BLsig => true
  | _, _ => false
  end.

Definition signature := (sig_kind * bytes)%type.
Definition signature_eqb : signature -> signature -> bool := prod_eqb sig_kind_eqb bytes_eqb.

Definition sig_len (k : sig_kind) : nat := match k with BLsig => 96 | _ => 64 end.
Definition wf_signature (s : signature) : Prop := length (snd s) = sig_len (fst s).

(* SignatureType.__eq__: same raw bytes *)
Definition same_signature (a b : signature) : Prop := snd a = snd b.

Definition forge_signature (s : signature) : bytes := snd s.

Definition unforge_signature (d : bytes) : result signature :=
  if Nat.eqb (length d) 64 then Ok (Sig, d)
  else if Nat.eqb (length d) 96 then Ok (BLsig, d)
  else Reject.

(* chain ids: 4 bytes *)
Definition wf_chain_id (c : bytes) : Prop := length c = 4%nat.
Definition forge_chain_id (c : bytes) : bytes := c.
Definition unforge_chain_id (d : bytes) : result bytes :=
  if Nat.eqb (length d) 4 then Ok d else Reject.

(* blind_unpack: first match of chain id, address, public key, signature *)
Inductive blind :=
| BChain (c : bytes)
| BAddr (a : address)
| BKey (k : public_key)
| BSig (s : signature)
| BOther.

Definition blind_eqb (a b : blind) : bool :=
  match a, b with
  | BChain x, BChain y => bytes_eqb x y
  | BAddr x, BAddr y => address_eqb x y
  | BKey x, BKey y => public_key_eqb x y
  | BSig x, BSig y => signature_eqb x y
  | BOther, BOther => true
  | _, _ => false
  end.

Definition blind_unpack (d : bytes) : blind :=
  match unforge_chain_id d with
  | Ok c => BChain c
  | Reject =>
      match unforge_address d with
      | Ok a => BAddr a
      | Reject =>
          match unforge_public_key d with
          | Ok k => BKey k
          | Reject =>
              match unforge_signature d with
              | Ok s => BSig s
              | Reject => BOther
              end
          end
      end
  end.

(* ========================================================================================== *)
(* Part 2 — the text level: what the Python functions really take and return                   *)

Definition addr_tpre (k : addr_kind) : bytes :=
  match k with
  | Tz1 => tx "tz1" | Tz2 => tx "tz2" | Tz3 => tx "tz3" | Tz4 => tx "tz4"
  | KT1 => tx "KT1" | Txr1 => tx "txr1" | Sr1 => tx "sr1"
  end.

Definition key_tpre (k : key_kind) : bytes :=
  match k with Edpk => tx "edpk" | Sppk => tx "sppk" | P2pk => tx "p2pk" | BLpk => tx "BLpk" end.

Definition sig_tpre (k : sig_kind) : bytes :=
  match k with
  | Sig => tx "sig" | Edsig => tx "edsig" | Spsig => tx "spsig" | P2sig => tx "p2sig" | BLsig => tx "BLsig"
  end.

Definition all_addr_kinds := [Tz1; Tz2; Tz3; Tz4; KT1; Txr1; Sr1].
Definition all_key_kinds := [Edpk; Sppk; P2pk; BLpk].
Definition all_sig_kinds := [Sig; Edsig; Spsig; P2sig; BLsig].

(* everything after the first '%' (None when there is no '%') *)
Fixpoint after_pct (s : bytes) : option bytes :=
  match s with
  | [] => None
  | c :: r => if byte_eqb c x25 then Some r else after_pct r
  end.

(* what forge.py assumes of the table (hard-coded prefix lengths 3 / 4, the rows it names):
   computable, evaluated on the pinned table and on the table read from /repo *)
Definition row_with (t : list row) (tp : bytes) (pl bl : nat) : bool :=
  match find_enc t (repeat x00 pl) tp with
  | Some r => Nat.eqb (length (bpre r)) bl
  | None => false
  end.

Definition domain_rows_ok (t : list row) : bool :=
  forallb (fun k => row_with t (addr_tpre k) 20 (match k with Txr1 => 4 | _ => 3 end)) all_addr_kinds &&
  forallb (fun k => row_with t (key_tpre k) (key_len k) 4) all_key_kinds &&
  forallb (fun k => match find_enc t (repeat x00 (sig_len k)) (sig_tpre k) with Some _ => true | None => false end) all_sig_kinds &&
  match find_enc t (repeat x00 4) (tx "Net") with Some _ => true | None => false end.

Section Text.
  Variable sha256 : bytes -> bytes.
  Variable t : list row.

  (* the Base58Check text of a value *)
  Definition address_text (a : address) : result bytes := base58_encode sha256 t (snd a) (addr_tpre (fst a)).
  Definition public_key_text (k : public_key) : result bytes := base58_encode sha256 t (snd k) (key_tpre (fst k)).
  Definition signature_text (s : signature) : result bytes := base58_encode sha256 t (snd s) (sig_tpre (fst s)).
  Definition chain_id_text (c : bytes) : result bytes := base58_encode sha256 t c (tx "Net").

  (* "KT1…" or "KT1…%name" *)
  Definition contract_text (c : contract) : result bytes :=
    match address_text (fst c) with
    | Ok s => Ok (if bytes_eqb (snd c) default_ep then s else s ++ x25 :: snd c)
    | Reject => Reject
    end.

  (* forge_address(value: str, tz_only) *)
  Definition forge_address_text (tz_only : bool) (s : bytes) : result bytes :=
    let pl := if is_prefix (tx "txr1") s then 4%nat else 3%nat in
    let prefix := firstn pl s in
    match b58check_dec sha256 s with
    | None => Reject
    | Some d =>
        let a := skipn pl d in
        let res :=
          if bytes_eqb prefix (tx "tz1") then Ok (x00 :: x00 :: a)
          else if bytes_eqb prefix (tx "tz2") then Ok (x00 :: x01 :: a)
          else if bytes_eqb prefix (tx "tz3") then Ok (x00 :: x02 :: a)
          else if bytes_eqb prefix (tx "tz4") then Ok (x00 :: x03 :: a)
          else if bytes_eqb prefix (tx "KT1") then Ok (x01 :: a ++ [x00])
          else if bytes_eqb prefix (tx "txr1") then Ok (x02 :: a ++ [x00])
          else if bytes_eqb prefix (tx "sr1") then Ok (x03 :: a ++ [x00])
          else Reject in
        match res with
        | Ok r => Ok (if tz_only then tl r else r)
        | Reject => Reject
        end
    end.

  (* unforge_address(data) -> str *)
  Definition unforge_address_text (d : bytes) : result bytes :=
    match unforge_address d with
    | Ok a => address_text a
    | Reject => Reject
    end.

  (* forge_contract(value: str), split at the first '%' *)
  Definition forge_contract_text (s : bytes) : result bytes :=
    let ep := match after_pct s with Some e => e | None => default_ep end in
    match forge_address_text false (before_pct s) with
    | Ok r => Ok (r ++ (if bytes_eqb ep default_ep then [] else ep))
    | Reject => Reject
    end.

  (* unforge_contract(data) -> str *)
  Definition unforge_contract_text (d : bytes) : result bytes :=
    match unforge_address_text (firstn 22 d) with
    | Ok s => Ok (if Nat.ltb 22 (length d) then s ++ x25 :: skipn 22 d else s)
    | Reject => Reject
    end.

  (* forge_public_key(value: str) *)
  Definition forge_public_key_text (s : bytes) : result bytes :=
    let prefix := firstn 4 s in
    match b58check_dec sha256 s with
    | None => Reject
    | Some d =>
        let r := skipn 4 d in
        if bytes_eqb prefix (tx "edpk") then Ok (x00 :: r)
        else if bytes_eqb prefix (tx "sppk") then Ok (x01 :: r)
        else if bytes_eqb prefix (tx "p2pk") then Ok (x02 :: r)
        else if bytes_eqb prefix (tx "BLpk") then Ok (x03 :: r)
        else Reject
    end.

  (* unforge_public_key(data) -> str: base58_encode(data[1:], key_prefix[data[:1]]) *)
  Definition unforge_public_key_text (d : bytes) : result bytes :=
    match d with
    | tg :: p => match key_of_tag tg with
                 | Some k => base58_encode sha256 t p (key_tpre k)
                 | None => Reject
                 end
    | [] => Reject
    end.

  (* forge_base58(value: str) = base58_decode *)
  Definition forge_base58_text (s : bytes) : result bytes := base58_decode sha256 t s.

  Definition unforge_signature_text (d : bytes) : result bytes :=
    base58_encode sha256 t d (if Nat.eqb (length d) 96 then tx "BLsig" else tx "sig").

  Definition unforge_chain_id_text (d : bytes) : result bytes := base58_encode sha256 t d (tx "Net").
End Text.
