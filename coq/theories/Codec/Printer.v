(* Codec/Printer.v — model of /repo/src/pytezos/michelson/format.py (format_node, is_framed,
   is_script, micheline_to_michelson) at the level of the TOKEN STREAM the formatter emits.

   The formatter produces text; which text depends on a line-width heuristic (inline / multi-line,
   indentation).  All of that only chooses the white space between tokens, so the model keeps the
   token stream ([fmt_root]) and leaves the white space to an arbitrary [layout] (see [render]):
   the theorems of C18 hold for EVERY layout, hence for the two the formatter can produce.

   Characters are code points 0..255 held in a [byte] (the harness only feeds Latin-1 text to the
   model; json.dumps(ensure_ascii) makes the formatter's output pure ASCII anyway).

   No proofs here (Proofs/Printer_proofs.v). *)
From Coq Require Import List NArith ZArith Bool String Decimal DecimalN.
From Coq.Strings Require Import Byte.
From PV Require Import Base.Bytes Codec.Micheline.
Import ListNotations.
Local Open Scope list_scope.

(* ------------------------------------------------------------------------------------------ *)
(* Characters                                                                                 *)
(* ------------------------------------------------------------------------------------------ *)
Definition c_tab : byte := x09.   Definition c_lf : byte := x0a.   Definition c_ff : byte := x0c.
Definition c_cr : byte := x0d.    Definition c_sp : byte := x20.   Definition c_quote : byte := x22.
Definition c_hash : byte := x23.  Definition c_lparen : byte := x28. Definition c_rparen : byte := x29.
Definition c_star : byte := x2a.  Definition c_minus : byte := x2d. Definition c_slash : byte := x2f.
Definition c_0 : byte := x30.     Definition c_semi : byte := x3b.  Definition c_bslash : byte := x5c.
Definition c_x : byte := x78.     Definition c_u : byte := x75.     Definition c_lcurly : byte := x7b.
Definition c_rcurly : byte := x7d.

Definition in_range (lo hi : N) (c : byte) : bool :=
  let n := Byte.to_N c in (lo <=? n)%N && (n <=? hi)%N.

Definition is_digit (c : byte) : bool := in_range 48 57 c.
Definition is_upper (c : byte) : bool := in_range 65 90 c.
Definition is_lower (c : byte) : bool := in_range 97 122 c.
Definition is_alpha (c : byte) : bool := is_upper c || is_lower c.
Definition is_hex (c : byte) : bool := is_digit c || in_range 65 70 c || in_range 97 102 c.
(* [A-Za-z0-9_] *)
Definition is_prim_tail (c : byte) : bool := is_alpha c || is_digit c || byte_eqb c x5f.
(* [:@%] *)
Definition is_sigil (c : byte) : bool := byte_eqb c x3a || byte_eqb c x40 || byte_eqb c x25.
(* [_0-9a-zA-Z\.] *)
Definition is_annot_tail (c : byte) : bool := is_prim_tail c || byte_eqb c x2e.
(* t_ignore: space, tab, CR, LF, FF *)
Definition is_ws (c : byte) : bool :=
  byte_eqb c c_sp || byte_eqb c c_tab || byte_eqb c c_cr || byte_eqb c c_lf || byte_eqb c c_ff.

Fixpoint span (p : byte -> bool) (s : bytes) : bytes * bytes :=
  match s with
  | [] => ([], [])
  | c :: r => if p c then let '(a, b) := span p r in (c :: a, b) else ([], s)
  end.

(* ------------------------------------------------------------------------------------------ *)
(* Tokens (the ten PLY token kinds of SimpleMichelsonLexer); payload = the matched text        *)
(* ------------------------------------------------------------------------------------------ *)
Inductive token : Type :=
| TInt (raw : bytes)      (* -?[0-9]+            raw = whole match                *)
| TByt (raw : bytes)      (* 0x then any hex digits;  raw = the hex digits after 0x *)
| TStr (raw : bytes)      (* QUOTE (BACKSLASH any | non-QUOTE)* QUOTE   raw = text between the quotes *)
| TAnnot (raw : bytes)    (* one or more of : @ %, then any of [_0-9a-zA-Z.]          *)
| TPrim (name : bytes)    (* [A-Za-z][A-Za-z0-9_]+                                 *)
| TLCurly | TRCurly | TLParen | TRParen | TSemi.

Definition token_eqb (a b : token) : bool :=
  match a, b with
  | TInt x, TInt y | TByt x, TByt y | TStr x, TStr y | TAnnot x, TAnnot y | TPrim x, TPrim y => bytes_eqb x y
  | TLCurly, TLCurly | TRCurly, TRCurly | TLParen, TLParen | TRParen, TRParen | TSemi, TSemi => true
  | _, _ => false
  end.

(* the regular expressions, as predicates on the payload *)
Definition wf_int_raw (r : bytes) : bool :=
  match r with
  | [] => false
  | c :: d => if byte_eqb c c_minus then negb (match d with [] => true | _ => false end) && forallb is_digit d
              else forallb is_digit r
  end.
Definition wf_hex_raw (r : bytes) : bool := forallb is_hex r.
Definition wf_name (n : bytes) : bool :=
  match n with
  | c :: ((_ :: _) as t) => is_alpha c && forallb is_prim_tail t
  | _ => false
  end.
Definition wf_annot (a : bytes) : bool :=
  let '(sg, r) := span is_sigil a in
  negb (match sg with [] => true | _ => false end) && forallb is_annot_tail r.
(* the units of the string regex taken in their first-choice order: \c (c not a newline) or a
   character that is neither a quote nor a backslash *)
Fixpoint wf_str_raw (r : bytes) : bool :=
  match r with
  | [] => true
  | c :: r1 =>
      if byte_eqb c c_bslash then
        match r1 with
        | d :: r2 => negb (byte_eqb d c_lf) && wf_str_raw r2
        | [] => false
        end
      else negb (byte_eqb c c_quote) && wf_str_raw r1
  end.

Definition wf_token (t : token) : bool :=
  match t with
  | TInt r => wf_int_raw r
  | TByt r => wf_hex_raw r
  | TStr r => wf_str_raw r
  | TAnnot r => wf_annot r
  | TPrim n => wf_name n
  | _ => true
  end.

Definition is_punct (t : token) : bool :=
  match t with
  | TLCurly | TRCurly | TLParen | TRParen | TSemi => true
  | _ => false
  end.

(* ------------------------------------------------------------------------------------------ *)
(* Expressions with primitive NAMES and literal TEXTS (what the formatter and the grammar see) *)
(* ------------------------------------------------------------------------------------------ *)
Inductive pnode : Type :=
| PInt (raw : bytes)
| PStr (raw : bytes)
| PByt (raw : bytes)
| PPrim (name : bytes) (annots : list bytes) (args : list pnode)
| PSeq (items : list pnode).

Section PnodeInd.
  Variable P : pnode -> Prop.
  Hypothesis HInt : forall r, P (PInt r).
  Hypothesis HStr : forall r, P (PStr r).
  Hypothesis HByt : forall r, P (PByt r).
  Hypothesis HPrim : forall n annots args, Forall P args -> P (PPrim n annots args).
  Hypothesis HSeq : forall items, Forall P items -> P (PSeq items).

  Fixpoint pnode_ind' (p : pnode) : P p :=
    match p with
    | PInt r => HInt r
    | PStr r => HStr r
    | PByt r => HByt r
    | PPrim n annots args =>
        HPrim n annots args
          ((fix go (l : list pnode) : Forall P l :=
              match l with
              | [] => Forall_nil P
              | x :: r => Forall_cons x (pnode_ind' x) (go r)
              end) args)
    | PSeq items =>
        HSeq items
          ((fix go (l : list pnode) : Forall P l :=
              match l with
              | [] => Forall_nil P
              | x :: r => Forall_cons x (pnode_ind' x) (go r)
              end) items)
    end.
End PnodeInd.

Fixpoint pnode_eqb (a b : pnode) {struct a} : bool :=
  match a, b with
  | PInt x, PInt y | PStr x, PStr y | PByt x, PByt y => bytes_eqb x y
  | PPrim n1 a1 l1, PPrim n2 a2 l2 =>
      bytes_eqb n1 n2 && list_eqb bytes_eqb a1 a2 &&
      (fix go (l1 l2 : list pnode) : bool :=
         match l1, l2 with
         | [], [] => true
         | x :: r1, y :: r2 => pnode_eqb x y && go r1 r2
         | _, _ => false
         end) l1 l2
  | PSeq l1, PSeq l2 =>
      (fix go (l1 l2 : list pnode) : bool :=
         match l1, l2 with
         | [], [] => true
         | x :: r1, y :: r2 => pnode_eqb x y && go r1 r2
         | _, _ => false
         end) l1 l2
  | _, _ => false
  end.

(* ------------------------------------------------------------------------------------------ *)
(* is_framed (format.py:30-75)                                                                *)
(* ------------------------------------------------------------------------------------------ *)
Local Open Scope string_scope.
(* always parenthesised in argument position *)
Definition framed_always : list bytes := map tx
  ["Pair"; "Left"; "Right"; "Some"; "pair"; "or"; "option"; "map"; "big_map"; "list"; "set";
   "contract"; "lambda"; "ticket"; "sapling_state"; "sapling_transaction";
   "sapling_transaction_deprecated"; "constant"; "Lambda_rec"; "Ticket"].
(* parenthesised in argument position when annotated *)
Definition framed_if_annotated : list bytes := map tx
  ["key"; "unit"; "signature"; "operation"; "int"; "nat"; "string"; "bytes"; "mutez"; "bool";
   "key_hash"; "timestamp"; "address"; "bls12_381_g1"; "bls12_381_g2"; "bls12_381_fr"; "chain_id";
   "never"; "chest"; "chest_key"; "tx_rollup_l2_address"].
Definition section_names : list bytes := map tx ["parameter"; "storage"; "code"].

(* the primitive table of tags.py: the name at index i has binary tag i (0x00..0x9e) *)
Definition prim_names : list bytes := map tx [
  "parameter"; "storage"; "code"; "False"; "Elt"; "Left";
  "None"; "Pair"; "Right"; "Some"; "True"; "Unit";
  "PACK"; "UNPACK"; "BLAKE2B"; "SHA256"; "SHA512"; "ABS";
  "ADD"; "AMOUNT"; "AND"; "BALANCE"; "CAR"; "CDR";
  "CHECK_SIGNATURE"; "COMPARE"; "CONCAT"; "CONS"; "__CREATE_ACCOUNT__"; "CREATE_CONTRACT";
  "IMPLICIT_ACCOUNT"; "DIP"; "DROP"; "DUP"; "EDIV"; "EMPTY_MAP";
  "EMPTY_SET"; "EQ"; "EXEC"; "FAILWITH"; "GE"; "GET";
  "GT"; "HASH_KEY"; "IF"; "IF_CONS"; "IF_LEFT"; "IF_NONE";
  "INT"; "LAMBDA"; "LE"; "LEFT"; "LOOP"; "LSL";
  "LSR"; "LT"; "MAP"; "MEM"; "MUL"; "NEG";
  "NEQ"; "NIL"; "NONE"; "NOT"; "NOW"; "OR";
  "PAIR"; "PUSH"; "RIGHT"; "SIZE"; "SOME"; "SOURCE";
  "SENDER"; "SELF"; "STEPS_TO_QUOTA"; "SUB"; "SWAP"; "TRANSFER_TOKENS";
  "SET_DELEGATE"; "UNIT"; "UPDATE"; "XOR"; "ITER"; "LOOP_LEFT";
  "ADDRESS"; "CONTRACT"; "ISNAT"; "CAST"; "RENAME"; "bool";
  "contract"; "int"; "key"; "key_hash"; "lambda"; "list";
  "map"; "big_map"; "nat"; "option"; "or"; "pair";
  "set"; "signature"; "string"; "bytes"; "mutez"; "timestamp";
  "unit"; "operation"; "address"; "SLICE"; "DIG"; "DUG";
  "EMPTY_BIG_MAP"; "APPLY"; "chain_id"; "CHAIN_ID"; "LEVEL"; "SELF_ADDRESS";
  "never"; "NEVER"; "UNPAIR"; "VOTING_POWER"; "TOTAL_VOTING_POWER"; "KECCAK";
  "SHA3"; "PAIRING_CHECK"; "bls12_381_g1"; "bls12_381_g2"; "bls12_381_fr"; "sapling_state";
  "sapling_transaction_deprecated"; "SAPLING_EMPTY_STATE"; "SAPLING_VERIFY_UPDATE"; "ticket"; "TICKET_DEPRECATED"; "READ_TICKET";
  "SPLIT_TICKET"; "JOIN_TICKETS"; "GET_AND_UPDATE"; "chest"; "chest_key"; "OPEN_CHEST";
  "VIEW"; "view"; "constant"; "SUB_MUTEZ"; "tx_rollup_l2_address"; "MIN_BLOCK_TIME";
  "sapling_transaction"; "EMIT"; "Lambda_rec"; "LAMBDA_REC"; "TICKET"; "BYTES";
  "NAT"; "Ticket"; "IS_IMPLICIT_ACCOUNT"].
Local Close Scope string_scope.

Definition mem_name (n : bytes) (l : list bytes) : bool := existsb (bytes_eqb n) l.

Definition is_framed (name : bytes) (has_annots : bool) : bool :=
  if mem_name name framed_always then true
  else if mem_name name framed_if_annotated then has_annots
  else false.

Definition nonempty {A} (l : list A) : bool := match l with [] => false | _ => true end.

(* name of a tag that the lexer can read back as one PRIM token (this drops only the deprecated
   placeholder __CREATE_ACCOUNT__, tag 0x1c, which does not match [A-Za-z][A-Za-z0-9_]+) *)
Definition name_of_tag (t : byte) : option bytes :=
  match nth_error prim_names (N.to_nat (Byte.to_N t)) with
  | Some n => if wf_name n then Some n else None
  | None => None
  end.

Fixpoint index_of (n : bytes) (l : list bytes) (i : N) : option N :=
  match l with
  | [] => None
  | x :: r => if bytes_eqb n x then Some i else index_of n r (i + 1)%N
  end.
Definition tag_of_name (n : bytes) : option byte :=
  match index_of n prim_names 0%N with
  | Some i => Some (b8 i)
  | None => None
  end.

(* ------------------------------------------------------------------------------------------ *)
(* The token stream of format_node                                                             *)
(* ------------------------------------------------------------------------------------------ *)
Fixpoint join_semi (l : list (list token)) : list token :=
  match l with
  | [] => []
  | [x] => x
  | x :: r => x ++ TSemi :: join_semi r
  end.

(* [fmt wrapped p]: format_node(p, is_root=False, wrapped=wrapped).  Sequence items are formatted
   with wrapped=True, primitive arguments with wrapped=False; a primitive application is put in
   parentheses iff is_framed and not wrapped. *)
Fixpoint fmt (wrapped : bool) (p : pnode) : list token :=
  match p with
  | PInt r => [TInt r]
  | PStr r => [TStr r]
  | PByt r => [TByt r]
  | PSeq items => TLCurly :: join_semi (map (fmt true) items) ++ [TRCurly]
  | PPrim n annots args =>
      let body := TPrim n :: map TAnnot annots ++ flat_map (fmt false) args in
      if is_framed n (nonempty annots) && negb wrapped then TLParen :: body ++ [TRParen] else body
  end.

Definition is_section (p : pnode) : bool :=
  match p with
  | PPrim n _ _ => mem_name n section_names
  | _ => false
  end.
Definition is_script (items : list pnode) : bool := forallb is_section items.

(* micheline_to_michelson(p) (wrap=False): format_node(p, is_root=True).  A root primitive is never
   parenthesised; a root sequence made only of parameter/storage/code sections is printed without
   braces (and with the semicolon glued to the preceding token), an empty one as a pair of braces. *)
Definition fmt_root (p : pnode) : list token :=
  match p with
  | PSeq items =>
      if is_script items && nonempty items then join_semi (map (fmt true) items) else fmt true p
  | _ => fmt true p
  end.

(* ------------------------------------------------------------------------------------------ *)
(* Rendering tokens with an arbitrary layout                                                   *)
(* ------------------------------------------------------------------------------------------ *)
Definition render_token (t : token) : bytes :=
  match t with
  | TInt r => r
  | TByt r => c_0 :: c_x :: r
  | TStr r => c_quote :: r ++ [c_quote]
  | TAnnot r => r
  | TPrim n => n
  | TLCurly => [c_lcurly] | TRCurly => [c_rcurly]
  | TLParen => [c_lparen] | TRParen => [c_rparen]
  | TSemi => [c_semi]
  end.

(* what may stand between two tokens: ignored characters and comments *)
Inductive filler : Type :=
| FWs (c : byte)           (* one of space, tab, CR, LF, FF                 *)
| FLine (body : bytes)     (* hash body LF      (body without LF)           *)
| FBlock (body : bytes).   (* slash star body star slash  (body without star) *)

Definition wf_filler (f : filler) : bool :=
  match f with
  | FWs c => is_ws c
  | FLine b => forallb (fun c => negb (byte_eqb c c_lf)) b
  | FBlock b => forallb (fun c => negb (byte_eqb c c_star)) b
  end.

Definition render_filler (f : filler) : bytes :=
  match f with
  | FWs c => [c]
  | FLine b => c_hash :: b ++ [c_lf]
  | FBlock b => c_slash :: c_star :: b ++ [c_star; c_slash]
  end.

Definition gap := list filler.
Definition render_gap (g : gap) : bytes := flat_map render_filler g.

(* a layout = the gap in front of every token, plus the gap after the last one *)
Fixpoint render (lt : list (gap * token)) (final : gap) : bytes :=
  match lt with
  | [] => render_gap final
  | (g, t) :: r => render_gap g ++ render_token t ++ render r final
  end.

(* two tokens may touch only if one of them is a bracket or a semicolon *)
Fixpoint layout_ok (prev : option token) (lt : list (gap * token)) : bool :=
  match lt with
  | [] => true
  | (g, t) :: r =>
      forallb wf_filler g &&
      (nonempty g || match prev with None => true | Some p => is_punct p || is_punct t end) &&
      layout_ok (Some t) r
  end.

(* ------------------------------------------------------------------------------------------ *)
(* Literals: decimal integers, hex bytes, JSON string escaping (json.dumps, ensure_ascii)      *)
(* ------------------------------------------------------------------------------------------ *)
Fixpoint uint_bytes (u : Decimal.uint) : bytes :=
  match u with
  | Nil => []
  | D0 r => x30 :: uint_bytes r | D1 r => x31 :: uint_bytes r | D2 r => x32 :: uint_bytes r
  | D3 r => x33 :: uint_bytes r | D4 r => x34 :: uint_bytes r | D5 r => x35 :: uint_bytes r
  | D6 r => x36 :: uint_bytes r | D7 r => x37 :: uint_bytes r | D8 r => x38 :: uint_bytes r
  | D9 r => x39 :: uint_bytes r
  end.

(* str(int) *)
Definition dec_of_Z (z : Z) : bytes :=
  match z with
  | Z0 => [x30]
  | Zpos p => uint_bytes (N.to_uint (Npos p))
  | Zneg p => c_minus :: uint_bytes (N.to_uint (Npos p))
  end.

Definition hex_digit (n : N) : byte :=
  if (n <? 10)%N then b8 (48 + n) else b8 (87 + n).   (* lower case *)
Definition hex_of_byte (c : byte) : bytes :=
  let n := Byte.to_N c in [hex_digit (n / 16); hex_digit (n mod 16)].
Definition hex_of_bytes (b : bytes) : bytes := flat_map hex_of_byte b.

(* json.dumps of one character: backslash followed by quote, backslash, n, r, t, b, f for those
   seven characters; backslash u 0 0 X X for the other characters outside space..tilde; the
   character itself otherwise *)
Definition escape_byte (c : byte) : bytes :=
  if byte_eqb c c_quote then [c_bslash; c_quote]
  else if byte_eqb c c_bslash then [c_bslash; c_bslash]
  else if byte_eqb c c_lf then [c_bslash; x6e]
  else if byte_eqb c c_cr then [c_bslash; x72]
  else if byte_eqb c c_tab then [c_bslash; x74]
  else if byte_eqb c x08 then [c_bslash; x62]
  else if byte_eqb c c_ff then [c_bslash; x66]
  else if in_range 32 126 c then [c]
  else c_bslash :: c_u :: x30 :: x30 :: hex_of_byte c.
Definition json_escape (s : bytes) : bytes := flat_map escape_byte s.

(* ------------------------------------------------------------------------------------------ *)
(* Micheline (binary tags, values) -> named expression with literal texts                      *)
(* ------------------------------------------------------------------------------------------ *)
Fixpoint to_pnode (e : node) : pnode :=
  match e with
  | NInt z => PInt (dec_of_Z z)
  | NStr s => PStr (json_escape s)
  | NByt b => PByt (hex_of_bytes b)
  | NPrim t args annots =>
      PPrim (match name_of_tag t with Some n => n | None => [] end) annots (map to_pnode args)
  | NSeq items => PSeq (map to_pnode items)
  end.

(* micheline_to_michelson as a token stream *)
Definition fmt_tokens (e : node) : list token := fmt_root (to_pnode e).

(* ------------------------------------------------------------------------------------------ *)
(* The domain of the round trip                                                                *)
(* ------------------------------------------------------------------------------------------ *)
(* an argument that is a primitive application with annotations or arguments must be one the
   formatter parenthesises (every Michelson type, Pair/Left/Right/Some/Lambda_rec/Ticket and
   constant are) *)
Definition arg_framed (p : pnode) : bool :=
  match p with
  | PPrim n annots args => negb (nonempty annots || nonempty args) || is_framed n (nonempty annots)
  | _ => true
  end.

Fixpoint framed_ok (p : pnode) : bool :=
  match p with
  | PPrim _ _ args => forallb (fun a => framed_ok a && arg_framed a) args
  | PSeq items => forallb framed_ok items
  | _ => true
  end.

(* a root sequence consisting of exactly one parameter/storage/code section is printed as the bare
   section and read back as that primitive, not as a one-element sequence; it is not a script,
   code, a type or data, and is outside the domain *)
Definition root_ok (p : pnode) : bool :=
  match p with
  | PSeq [x] => negb (is_section x)
  | _ => true
  end.

(* every payload matches the regular expression of its token kind *)
Fixpoint raw_ok (p : pnode) : bool :=
  match p with
  | PInt r => wf_int_raw r
  | PStr r => wf_str_raw r
  | PByt r => wf_hex_raw r
  | PPrim n annots args => wf_name n && forallb wf_annot annots && forallb raw_ok args
  | PSeq items => forallb raw_ok items
  end.

(* Micheline expressions in the domain: known primitive tags whose names are PRIM tokens,
   annotations that are ANNOT tokens, the framing condition.  Integers, strings (any characters)
   and bytes are unrestricted. *)
Fixpoint tags_ok (e : node) : bool :=
  match e with
  | NPrim t args annots =>
      (match name_of_tag t with Some _ => true | None => false end)
      && forallb wf_annot annots && forallb tags_ok args
  | NSeq items => forallb tags_ok items
  | _ => true
  end.

Definition wf_expr (e : node) : bool :=
  tags_ok e && framed_ok (to_pnode e) && root_ok (to_pnode e).

(* ------------------------------------------------------------------------------------------ *)
(* The exact text of format_node (format.py:98-159): tokens AND the white space between them   *)
(* ------------------------------------------------------------------------------------------ *)
(* A text is a list of pieces: tokens and fillers.  [fmtx inline p indent wrapped] is
   format_node(p, ' ' * indent, inline, is_root=False, wrapped); the line-width rule (line_size = 100)
   decides between one space and newline + indentation.  Lengths are Python's len() of the strings
   (all characters the formatter emits are ASCII). *)
Inductive piece : Type :=
| PT (t : token)
| PG (f : filler).

Definition render_piece (pc : piece) : bytes :=
  match pc with PT t => render_token t | PG f => render_filler f end.
Definition render_pieces (ps : list piece) : bytes := flat_map render_piece ps.
Definition plen (ps : list piece) : nat := List.length (render_pieces ps).
Definition tokens_of (ps : list piece) : list token :=
  flat_map (fun pc => match pc with PT t => [t] | PG _ => [] end) ps.

Definition sp : piece := PG (FWs c_sp).
Definition nl_indent (k : nat) : list piece := PG (FWs c_lf) :: repeat sp k.

Fixpoint join_pieces (sep : list piece) (items : list (list piece)) : list piece :=
  match items with
  | [] => []
  | [x] => x
  | x :: r => x ++ sep ++ join_pieces sep r
  end.

Definition sum_plen (l : list (list piece)) : nat := fold_right (fun x acc => plen x + acc) 0 l.

Definition line_size : nat := 100.

Fixpoint is_prefix (a b : bytes) : bool :=
  match a, b with
  | [], _ => true
  | x :: a', y :: b' => byte_eqb x y && is_prefix a' b'
  | _ :: _, [] => false
  end.
(* is_complex: LAMBDA or IF...;  is_inline: PUSH *)
Definition is_complex (n : bytes) : bool := bytes_eqb n (tx "LAMBDA") || is_prefix (tx "IF") n.
Definition is_inline (n : bytes) : bool := bytes_eqb n (tx "PUSH").

(* the loop over several arguments: each one goes on the current line if it fits (always for PUSH and
   in inline mode), otherwise on a new line; [f a k] formats argument a with indentation k *)
Definition multi_loop (f : pnode -> nat -> list piece) (always : bool) (indent alt_indent : nat) :=
  fix loop (l : list pnode) (expr : list piece) (ai : nat) {struct l} : list piece :=
    match l with
    | [] => expr
    | a :: r =>
        let item := f a ai in
        let len := indent + plen expr + plen item + 1 in
        if always || (len <? line_size)
        then loop r (expr ++ sp :: item) alt_indent
        else loop r (expr ++ nl_indent ai ++ item) ai
    end.

Fixpoint fmtx (inline : bool) (p : pnode) (indent : nat) (wrapped : bool) {struct p} : list piece :=
  match p with
  | PInt r => [PT (TInt r)]
  | PStr r => [PT (TStr r)]
  | PByt r => [PT (TByt r)]
  | PSeq items =>
      let seq_indent := indent + 2 in
      let its := map (fun x => fmtx inline x seq_indent true) items in
      match its with
      | [] => [PT TLCurly; PT TRCurly]
      | _ =>
          let len := indent + sum_plen its + 4 in
          let sep := if inline || (len <? line_size) then [sp; PT TSemi; sp]
                     else sp :: PT TSemi :: nl_indent seq_indent in
          PT TLCurly :: sp :: join_pieces sep its ++ [sp; PT TRCurly]
      end
  | PPrim n annots args =>
      let head := PT (TPrim n) :: flat_map (fun a => [sp; PT (TAnnot a)]) annots in
      let body :=
        if is_complex n then
          let ai := indent + 2 in
          let its := map (fun x => fmtx inline x ai false) args in
          let len := indent + plen head + sum_plen its + List.length its + 1 in
          if inline || (len <? line_size) then head ++ sp :: join_pieces [sp] its
          else join_pieces (nl_indent ai) (head :: its)
        else
          match args with
          | [] => head
          | [a] => head ++ sp :: fmtx inline a (indent + (plen head + 1)) false
          | _ =>
              let alt_indent := indent + (plen head + 2) in
              multi_loop (fun a k => fmtx inline a k false) (inline || is_inline n) indent alt_indent args head (indent + 2)
          end in
      if is_framed n (nonempty annots) && negb wrapped then PT TLParen :: body ++ [PT TRParen] else body
  end.

(* format_node(p, inline=inline, is_root=True) *)
Definition fmtx_root (inline : bool) (p : pnode) : list piece :=
  match p with
  | PSeq items =>
      if is_script items && nonempty items then
        let its := map (fun x => fmtx inline x 0 true) items in
        let len := sum_plen its + 4 in
        let sep := if inline || (len <? line_size) then [PT TSemi; sp] else PT TSemi :: nl_indent 0 in
        join_pieces sep its
      else fmtx inline p 0 true
  | _ => fmtx inline p 0 true
  end.

(* micheline_to_michelson(e, inline) *)
Definition format_text (inline : bool) (e : node) : bytes :=
  render_pieces (fmtx_root inline (to_pnode e)).

(* when may tokens touch: [pok prev seen ps] — [prev] the previous token, [seen] whether a filler
   came after it *)
Fixpoint pok (prev : option token) (seen : bool) (ps : list piece) : bool :=
  match ps with
  | [] => true
  | PG f :: r => wf_filler f && pok prev true r
  | PT t :: r =>
      (seen || match prev with None => true | Some p => is_punct p || is_punct t end)
      && pok (Some t) false r
  end.

(* ------------------------------------------------------------------------------------------ *)
(* The domain stated independently of is_framed                                                 *)
(* ------------------------------------------------------------------------------------------ *)
(* What Michelson puts, with arguments or annotations, in ARGUMENT position of an application:
   composite types and data constructors (with arguments and/or annotations), global-constant
   references, and the simple types (annotations only).  This list is fixed by the language, not by
   the formatter: Proofs/Printer_proofs.v (michelson_expr_wf) shows that is_framed parenthesises all
   of them, which is exactly what defects #16 and #44 violated. *)
Local Open Scope string_scope.
Definition arg_applications : list bytes := map tx
  ["pair"; "or"; "option"; "list"; "set"; "map"; "big_map"; "contract"; "lambda"; "ticket";
   "sapling_state"; "sapling_transaction"; "sapling_transaction_deprecated";
   "Pair"; "Left"; "Right"; "Some"; "Lambda_rec"; "Ticket"; "constant"].
Definition simple_types : list bytes := map tx
  ["key"; "unit"; "signature"; "operation"; "int"; "nat"; "string"; "bytes"; "mutez"; "bool";
   "key_hash"; "timestamp"; "address"; "bls12_381_g1"; "bls12_381_g2"; "bls12_381_fr"; "chain_id";
   "never"; "chest"; "chest_key"; "tx_rollup_l2_address"].
Local Close Scope string_scope.

Definition arg_shaped (p : pnode) : bool :=
  match p with
  | PPrim n annots args =>
      negb (nonempty annots || nonempty args)
      || mem_name n arg_applications
      || (mem_name n simple_types && negb (nonempty args))
  | _ => true
  end.

Fixpoint shaped_ok (p : pnode) : bool :=
  match p with
  | PPrim _ _ args => forallb (fun a => shaped_ok a && arg_shaped a) args
  | PSeq items => forallb shaped_ok items
  | _ => true
  end.

(* Micheline expressions shaped like Michelson code, types or data *)
Definition michelson_expr (e : node) : bool :=
  tags_ok e && shaped_ok (to_pnode e) && root_ok (to_pnode e).
