(* Codec/Merkle.v — model of src/pytezos/crypto/hash.py:
     _hash_tuple, _reduce_operation_hashes (the in-place array reduction, written exactly as the
     Python loop: a Python list with item assignment), operation_list_hash,
     operation_list_list_hash, block_payload_hash;
   and the specification: root of the perfect binary tree over the leaves padded with copies
   of the last leaf up to the next power of two.
   Hash functions are Section variables (never axioms). No proofs in this file. *)
From Coq Require Import List Arith Bool NArith ZArith Lia.
From Coq.Strings Require Import Byte.
From PV Require Import Base.Bytes Base.Result.
Import ListNotations.

(* What a run of the Python function can end in. [IndexError]: a list index out of range
   (a[i] read or a[i] = v written beyond the list). [OutOfFuel] is the distinguished
   "recursion budget of the model exhausted" answer; theorems show it never happens. *)
Inductive outcome (T : Type) : Type :=
| Done (t : T)
| IndexError
| OutOfFuel.
Arguments Done {T} t.
Arguments IndexError {T}.
Arguments OutOfFuel {T}.

Definition outcome_eqb {T} (eqb : T -> T -> bool) (a b : outcome T) : bool :=
  match a, b with
  | Done x, Done y => eqb x y
  | IndexError, IndexError => true
  | OutOfFuel, OutOfFuel => true
  | _, _ => false
  end.

Fixpoint last_opt {T} (l : list T) : option T :=
  match l with
  | [] => None
  | [x] => Some x
  | _ :: r => last_opt r
  end.

(* ------------------------------------------------------------------------------------ *)
(* The algorithm, generic in the node type, the leaf function and the two-argument hash   *)
(* ------------------------------------------------------------------------------------ *)
Section Generic.
  Variable A T : Type.
  Variable leaf : A -> T.        (* lambda x: _hash_tuple(x) *)
  Variable H2 : T -> T -> T.     (* _hash_tuple(left, right) *)
  Variable H0 : T.               (* _hash_tuple() *)

  (* Python [a[i] = v]: IndexError (None) when i is out of range *)
  Fixpoint upd (i : nat) (v : T) (a : list T) : option (list T) :=
    match a, i with
    | [], _ => None
    | _ :: r, O => Some (v :: r)
    | x :: r, S i' => match upd i' v r with Some r' => Some (x :: r') | None => None end
    end.

  (* [for i in range(i, i+cnt): a[i] = _hash_tuple(a[2*i], a[2*i+1])] *)
  Fixpoint pair_loop (cnt i : nat) (a : list T) : option (list T) :=
    match cnt with
    | O => Some a
    | S c =>
        match nth_error a (2 * i), nth_error a (2 * i + 1) with
        | Some x, Some y =>
            match upd i (H2 x y) a with
            | Some a' => pair_loop c (S i) a'
            | None => None
            end
        | _, _ => None
        end
    end.

  (* the nested function [step(n)] acting on the nonlocal list [a] *)
  Fixpoint step (fuel n : nat) (a : list T) : outcome T :=
    match fuel with
    | O => OutOfFuel
    | S f =>
        let m := (n + 1) / 2 in
        match pair_loop m 0 a with
        | None => IndexError
        | Some a1 =>
            match nth_error a1 n with
            | None => IndexError
            | Some p =>
                match upd m (H2 p p) a1 with
                | None => IndexError
                | Some a2 =>
                    if m =? 1 then
                      match nth_error a2 0 with Some r => Done r | None => IndexError end
                    else if Nat.even m then step f m a2
                    else
                      match nth_error a2 m with
                      | None => IndexError
                      | Some q =>
                          match upd (m + 1) q a2 with
                          | None => IndexError
                          | Some a3 => step f (m + 1) a3
                          end
                      end
                end
            end
        end
    end.

  (* _reduce_operation_hashes *)
  Definition reduce (hashes : list A) : outcome T :=
    match hashes with
    | [] => Done H0
    | [x] => Done (leaf x)
    | _ =>
        let res := map leaf hashes in
        match last_opt res with
        | Some l => step (length hashes) (length hashes) (res ++ [l])
        | None => IndexError
        end
    end.

  (* ---------------- specification ---------------- *)

  (* root of the perfect binary tree of depth d whose leaves, left to right, are l
     (defined only when length l = 2^d) *)
  Fixpoint root (d : nat) (l : list T) : option T :=
    match d with
    | O => match l with [x] => Some x | _ => None end
    | S d' =>
        match root d' (firstn (2 ^ d') l), root d' (skipn (2 ^ d') l) with
        | Some x, Some y => Some (H2 x y)
        | _, _ => None
        end
    end.

  (* pad with copies of the last element up to the next power of two *)
  Definition pad_pow2 (l : list T) : list T :=
    match last_opt l with
    | Some x => l ++ repeat x (2 ^ Nat.log2_up (length l) - length l)
    | None => []
    end.

  (* the Tezos Merkle root of a list of hashes *)
  Definition merkle_spec (hashes : list A) : option T :=
    match hashes with
    | [] => Some H0
    | _ => let leaves := map leaf hashes in root (Nat.log2_up (length leaves)) (pad_pow2 leaves)
    end.

  (* the same specification through explicit trees *)
  Inductive tree : Type := Lf (x : T) | Nd (l r : tree).
  Fixpoint eval (t : tree) : T := match t with Lf x => x | Nd l r => H2 (eval l) (eval r) end.
  Fixpoint leaves (t : tree) : list T := match t with Lf x => [x] | Nd l r => leaves l ++ leaves r end.
  Inductive perfect : nat -> tree -> Prop :=
  | perfect_leaf x : perfect 0 (Lf x)
  | perfect_node d l r : perfect d l -> perfect d r -> perfect (S d) (Nd l r).
End Generic.

Arguments upd {T}.
Arguments pair_loop {T}.
Arguments step {T}.
Arguments reduce {A T}.
Arguments root {T}.
Arguments pad_pow2 {T}.
Arguments merkle_spec {A T}.
Arguments Lf {T}.
Arguments Nd {T}.
Arguments eval {T}.
Arguments leaves {T}.
Arguments perfect {T}.

(* ------------------------------------------------------------------------------------ *)
(* The Python instance: one function _hash_tuple(left=b'', right=b'')                      *)
(* ------------------------------------------------------------------------------------ *)
Section PyInstance.
  Variable T : Type.
  Variable H : T -> T -> T.   (* _hash_tuple *)
  Variable e : T.             (* the default argument b'' *)
  Definition py_reduce : list T -> outcome T := reduce (fun x => H x e) H (H e e).
  Definition py_spec : list T -> option T := merkle_spec (fun x => H x e) H (H e e).
End PyInstance.
Arguments py_reduce {T}.
Arguments py_spec {T}.

(* ------------------------------------------------------------------------------------ *)
(* Bytes level: Blake2b-256 and base58check as oracles; the three public functions         *)
(* ------------------------------------------------------------------------------------ *)
Section Bytes.
  Variable blake : bytes -> bytes.                 (* blake2b(x, digest_size=32).digest() *)
  Variable b58dec : bytes -> result bytes.         (* base58_decode(text): payload or exception *)
  Variable b58enc : bytes -> bytes -> bytes.       (* base58_encode(payload, prefix): prefix first here *)

  Definition hash_tuple (l r : bytes) : bytes := blake (l ++ r).
  Definition reduce_operation_hashes (hs : list bytes) : outcome bytes := py_reduce hash_tuple [] hs.

  Fixpoint mapM {X Y} (f : X -> result Y) (l : list X) : result (list Y) :=
    match l with
    | [] => Ok []
    | x :: r => let* y := f x in let* ys := mapM f r in Ok (y :: ys)
    end.

  Definition of_outcome {X} (o : outcome X) : result X :=
    match o with Done x => Ok x | _ => Reject end.

  Definition pLo : bytes := [x4c; x6f].           (* b'Lo' *)
  Definition pLLo : bytes := [x4c; x4c; x6f].     (* b'LLo' *)
  Definition pvh : bytes := [x76; x68].           (* b'vh' *)

  Definition operation_list_hash (ops : list bytes) : result bytes :=
    let* raw := mapM b58dec ops in
    let* r := of_outcome (reduce_operation_hashes raw) in
    Ok (b58enc pLo r).

  Definition operation_list_list_hash (opss : list (list bytes)) : result bytes :=
    let* los := mapM operation_list_hash opss in
    let* raw := mapM b58dec los in
    let* r := of_outcome (reduce_operation_hashes raw) in
    Ok (b58enc pLLo r).

  (* int.to_bytes(4, 'big'): OverflowError outside 0 .. 2^32-1 *)
  Definition int32_be (z : Z) : result bytes :=
    if ((0 <=? z) && (z <? 4294967296))%Z then Ok (N_to_be 4 (Z.to_N z)) else Reject.

  Definition block_payload_hash (pred : bytes) (round : Z) (ops : list bytes) : result bytes :=
    let* p := b58dec pred in
    let* r := int32_be round in
    let* raw := mapM b58dec ops in
    let* m := of_outcome (reduce_operation_hashes raw) in
    Ok (b58enc pvh (blake (p ++ r ++ m))).

  (* what the property demands of the three functions, written with the specification root *)
  Definition merkle_bytes (hs : list bytes) : option bytes :=
    merkle_spec (fun x => blake x) hash_tuple (blake []) hs.
End Bytes.

(* ------------------------------------------------------------------------------------ *)
(* Executable interface for the correspondence cases                                      *)
(* ------------------------------------------------------------------------------------ *)

(* (1) free terms: what the real code returns when _hash_tuple is replaced from outside by a
   term constructor. [Raw i] is the i-th input, [Emp] the default argument b''. *)
Inductive term : Type := Raw (i : N) | Emp | HT (l r : term).

(* interpretation of a free term in an arbitrary algebra (H, e) under a valuation of the inputs *)
Fixpoint interp {T} (H : T -> T -> T) (e : T) (v : N -> T) (t : term) : T :=
  match t with
  | Raw i => v i
  | Emp => e
  | HT l r => H (interp H e v l) (interp H e v r)
  end.
Definition map_outcome {X Y} (f : X -> Y) (o : outcome X) : outcome Y :=
  match o with Done t => Done (f t) | IndexError => IndexError | OutOfFuel => OutOfFuel end.

(* postfix serialisation (compact literal on the harness side): Emp = 00, Raw i = 01 hi lo,
   HT l r = ser l ++ ser r ++ 02 *)
Fixpoint ser (t : term) : bytes :=
  match t with
  | Emp => [x00]
  | Raw i => [x01; b8 (i / 256); b8 i]
  | HT l r => ser l ++ ser r ++ [x02]
  end.

(* a stack-machine reader of the postfix form (used to show that [ser] loses nothing) *)
Fixpoint deser (l : bytes) (st : list term) : option (list term) :=
  match l with
  | [] => Some st
  | x00 :: r => deser r (Emp :: st)
  | x01 :: hi :: lo :: r => deser r (Raw (Byte.to_N hi * 256 + Byte.to_N lo) :: st)
  | x02 :: r => match st with b :: a :: st' => deser r (HT a b :: st') | _ => None end
  | _ => None
  end.
Fixpoint small (t : term) : Prop :=
  match t with Raw i => (i < 65536)%N | Emp => True | HT l r => small l /\ small r end.

Definition ser_outcome (o : outcome term) : bytes :=
  match o with Done t => ser t | IndexError => [xff] | OutOfFuel => [xfe] end.

Fixpoint raws (n : nat) (from : N) : list term :=
  match n with O => [] | S k => Raw from :: raws k (from + 1)%N end.

Definition free_reduce (n : nat) : bytes := ser_outcome (py_reduce HT Emp (raws n 0)).
Definition free_spec (n : nat) : bytes :=
  match py_spec HT Emp (raws n 0) with Some t => ser t | None => [xfd] end.

(* the serialisation as one [positive] (bits little-endian, a final 1 bit as terminator):
   Python's int.from_bytes(ser + b'\x01', 'little'); a number literal is far cheaper for coqc to
   read and compare than a hex string *)
Fixpoint pos_of_bytes (l : bytes) : positive :=
  match l with
  | [] => xH
  | b :: r =>
      let '(b0, (b1, (b2, (b3, (b4, (b5, (b6, b7))))))) := Byte.to_bits b in
      let c (x : bool) (q : positive) := if x then xI q else xO q in
      c b0 (c b1 (c b2 (c b3 (c b4 (c b5 (c b6 (c b7 (pos_of_bytes r))))))))
  end.
(* consecutive 256-byte pieces, each as one positive (a literal of thousands of digits would
   overflow coqc's stack while being read) *)
Fixpoint chunks_aux (l : bytes) (k : nat) (cur : bytes) : list positive :=
  match l with
  | [] => match cur with [] => [] | _ => [pos_of_bytes (rev cur)] end
  | b :: r =>
      match k with
      | O => pos_of_bytes (rev cur) :: chunks_aux r 255 [b]
      | S k' => chunks_aux r k' (b :: cur)
      end
  end.
Definition chunks (l : bytes) : list positive := chunks_aux l 256 [].
Definition free_reduce_pos (n : nat) : list positive := chunks (free_reduce n).
Definition poslist_eqb : list positive -> list positive -> bool := list_eqb Pos.eqb.

(* (2) a numeric algebra (a second, cheap instantiation used for every length with seeded leaves):
   H a b = (a*b + 3a + 7b + 12345) mod (2^31 - 1) — neither commutative nor associative *)
Definition numP : N := 2147483647.
Definition numH (a b : N) : N := ((a * b + a * 3 + b * 7 + 12345) mod numP)%N.
Definition N_outcome (o : outcome N) : Z :=
  match o with Done t => Z.of_N t | IndexError => (-1)%Z | OutOfFuel => (-2)%Z end.
Definition num_reduce (e : N) (l : list N) : Z := N_outcome (py_reduce numH e l).
(* leaves generated from a seed on both sides, so that a case literal stays small:
   leaf i = (seed * (i+1) + i*i) mod (2^31 - 1) *)
Fixpoint gen_leaves (n : nat) (i seed : N) : list N :=
  match n with
  | O => []
  | S k => ((seed * (i + 1) + i * i) mod numP)%N :: gen_leaves k (i + 1)%N seed
  end.
Definition num_case (c : nat * N * N) : Z :=
  let '(n, seed, e) := c in num_reduce e (gen_leaves n 0 seed).

(* (3) oracles supplied as data: association lists recorded by the harness *)
Fixpoint alookup (k : bytes) (tbl : list (bytes * bytes)) : option bytes :=
  match tbl with
  | [] => None
  | (k', v) :: r => if bytes_eqb k k' then Some v else alookup k r
  end.
Definition tbl_fun (tbl : list (bytes * bytes)) (k : bytes) : bytes :=
  match alookup k tbl with Some v => v | None => [] end.
Definition tbl_dec (tbl : list (bytes * bytes)) (k : bytes) : result bytes :=
  match alookup k tbl with Some v => Ok v | None => Reject end.
(* base58_encode(payload, prefix) recorded under the key prefix ++ ":" ++ payload *)
Definition tbl_enc (tbl : list (bytes * bytes)) (p x : bytes) : bytes := tbl_fun tbl (p ++ [x3a] ++ x).

Definition rbytes_eqb : result bytes -> result bytes -> bool := result_eqb bytes_eqb.

Record glue_case := {
  g_blake : list (bytes * bytes);
  g_dec : list (bytes * bytes);
  g_enc : list (bytes * bytes);
  g_kind : nat;                       (* 0 operation_list_hash, 1 operation_list_list_hash, 2 block_payload_hash, 3 _reduce_operation_hashes *)
  g_lists : list (list bytes);
  g_pred : bytes;
  g_round : Z
}.

Definition run_glue (c : glue_case) : result bytes :=
  let bl := tbl_fun (g_blake c) in
  let dc := tbl_dec (g_dec c) in
  let en := tbl_enc (g_enc c) in
  match g_kind c with
  | 0 => operation_list_hash bl dc en (concat (g_lists c))
  | 1 => operation_list_list_hash bl dc en (g_lists c)
  | 2 => block_payload_hash bl dc en (g_pred c) (g_round c) (concat (g_lists c))
  | _ => of_outcome (reduce_operation_hashes bl (concat (g_lists c)))
  end.

(* compact byte-string literals for the generated cases: consecutive pieces of at most 256 bytes, each
   written as the number int.from_bytes(piece + b'\x01', 'little') (hex positive literal). Decoding is a
   bit walk; [Base.Bytes.hx] costs a division per byte. *)
Definition mkbyte (l : list bool) : byte :=
  match l with
  | [b7; b6; b5; b4; b3; b2; b1; b0] => Byte.of_bits (b0, (b1, (b2, (b3, (b4, (b5, (b6, b7)))))))
  | _ => x00
  end.
Fixpoint bop (p : positive) (cur : list bool) (k : nat) : bytes :=
  match p with
  | xH => []
  | xO q => match k with 7 => mkbyte (false :: cur) :: bop q [] 0 | _ => bop q (false :: cur) (S k) end
  | xI q => match k with 7 => mkbyte (true :: cur) :: bop q [] 0 | _ => bop q (true :: cur) (S k) end
  end.
Definition bp (l : list positive) : bytes := List.concat (map (fun p => bop p [] 0) l).

(* one generated case of any of the three streams, with the implementation's answer *)
Inductive ccase :=
| CFree (n : nat) (expect : list positive)
| CNum (n : nat) (seed e : N) (expect : Z)
| CGlue (c : glue_case) (expect : result bytes).
Definition ccheck (c : ccase) : bool :=
  match c with
  | CFree n x => poslist_eqb (free_reduce_pos n) x
  | CNum n s e x => Z.eqb (num_case (n, s, e)) x
  | CGlue g x => rbytes_eqb (run_glue g) x
  end.
